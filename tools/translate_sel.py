"""Statement-level translation of the METHODS THAT DRIVE OTHER METHODS (DESIGN §2.1b, "object level"):

    KNNSupervisedOPF._learn / fit          (opfython/models/knn_supervised.py)
    UnsupervisedOPF._best_minimum_cut / fit (opfython/models/unsupervised.py)
    SupervisedOPF.learn                     (opfython/models/supervised.py)       -- see translate_learn below

`self` is an abstract state `σ`; every method the loop calls on the object (create_arcs, calculate_pdf,
_clustering, predict, destroy_arcs, _normalized_cut, the KNNSubgraph constructor, attribute setters with
their validation) is a field of the hand-written structure `Opf.SelOps σ` (Model/SelOps.lean) — an ARBITRARY
state transformer that may fail.  What is translated statement by statement is the control: which calls are
made, in which order, with which `k`, which value is compared with which, what is kept, what the object is
left with.  A call whose shape is not in the table below (other arguments, other receiver) is Untranslatable:
the refinement obligation breaks and the check searches for a failing input.

Values: `int` → `Int`; `float` → `Int` (order-preserving encoding, only compared); lists → `Array Int`;
a local that may be unbound when read → `Option Int`, read by `←` (UnboundLocalError = `none`).
"""
import ast
import os

from translate_imp import Untranslatable

SELF3 = ["self.distance_fn", "self.pre_computed_distance", "self.pre_distances"]


def src(e):
    return ast.unparse(e)


class SelFn:
    def __init__(self, path, rel, clsname):
        self.rel = rel
        tree = ast.parse(open(path).read())
        self.cls = None
        for n in tree.body:
            if isinstance(n, ast.ClassDef) and n.name == clsname:
                self.cls = n
        if self.cls is None:
            raise Untranslatable(f"{rel}: class {clsname} not found")
        self.tmp = 0
        self.consts = {}          # float literal -> parameter name
        self.local_fns = {}       # python method name -> (lean name, param list)

    def fail(self, node, msg):
        raise Untranslatable(f"untranslatable construct at {self.rel}:{getattr(node, 'lineno', '?')}: {msg}")

    def fresh(self):
        self.tmp += 1
        return f"t{self.tmp}"

    def fconst(self, text):
        name = "FC_" + text.replace("-", "neg_").replace(".", "_").replace("+", "")
        self.consts[text] = name
        return name

    # ---- expressions (pure, may bind monadic temporaries into `lines`) ----
    def expr(self, e, lines, env):
        if isinstance(e, ast.Constant):
            if isinstance(e.value, bool):
                return "true" if e.value else "false"
            if isinstance(e.value, int):
                return f"({e.value} : Int)"
            if isinstance(e.value, float):
                return self.fconst(repr(e.value))
            self.fail(e, f"constant {e.value!r}")
        if isinstance(e, ast.UnaryOp) and isinstance(e.op, ast.USub) and isinstance(e.operand, ast.Constant) \
                and isinstance(e.operand.value, float):
            return self.fconst("-" + repr(e.operand.value))
        if isinstance(e, ast.Name):
            if e.id not in env:
                self.fail(e, f"name {e.id} is not a local of the translated method")
            if env[e.id] == "opt":
                t = self.fresh()
                lines.append(f"let {t} ← {e.id}")
                return t
            return e.id
        s = src(e)
        if s == "c.FLOAT_MAX":
            return "FLOAT_MAX"
        table = {"self.pre_computed_distance": "ops.pre_computed_distance s",
                 "self.pre_distances.shape[0]": "ops.pre_shape0 s", "self.pre_distances.shape[1]": "ops.pre_shape1 s",
                 "self.subgraph.n_nodes": "ops.n_nodes s", "self.subgraph.best_k": "ops.get_best_k s",
                 "self.max_k": "ops.max_k s", "self.min_k": "ops.min_k s"}
        if s in table:
            return f"({table[s]})"
        if isinstance(e, ast.BinOp) and isinstance(e.op, (ast.Add, ast.Sub)):
            a, b = self.expr(e.left, lines, env), self.expr(e.right, lines, env)
            if any(self.is_float(x, env) for x in (e.left, e.right)):
                self.fail(e, "float arithmetic in a selection loop")
            return f"({a} {'+' if isinstance(e.op, ast.Add) else '-'} {b})"
        if isinstance(e, ast.Subscript) and isinstance(e.value, ast.Name) and env.get(e.value.id) == "arr":
            i = self.expr(e.slice, lines, env)
            t = self.fresh()
            lines.append(f"let {t} ← Py.idx {e.value.id} {i}")
            return t
        if isinstance(e, ast.Compare) and len(e.ops) == 1:
            a, b = self.expr(e.left, lines, env), self.expr(e.comparators[0], lines, env)
            op = {ast.Gt: ">", ast.Lt: "<", ast.GtE: "≥", ast.LtE: "≤", ast.NotEq: "≠", ast.Eq: "="}.get(type(e.ops[0]))
            if op is None:
                self.fail(e, "comparison operator")
            return f"decide ({a} {op} {b})"
        if isinstance(e, ast.BoolOp):
            parts = [self.expr(v, lines, env) for v in e.values]
            return "(" + (" || " if isinstance(e.op, ast.Or) else " && ").join(parts) + ")"
        if isinstance(e, ast.UnaryOp) and isinstance(e.op, ast.Not):
            return f"(!{self.expr(e.operand, lines, env)})"
        self.fail(e, f"expression `{s}`")

    def is_float(self, e, env):
        if isinstance(e, ast.UnaryOp) and isinstance(e.op, ast.USub):
            return self.is_float(e.operand, env)
        return (isinstance(e, ast.Constant) and isinstance(e.value, float)) or \
               (isinstance(e, ast.Name) and env.get(e.id) == "float") or src(e) == "c.FLOAT_MAX"

    # ---- calls on the object: (lean term returning Option, result kind) ----
    def call(self, e, lines, env, params):
        s = src(e)
        f = src(e.func)
        args = [src(a) for a in e.args]
        kws = {k.arg: src(k.value) for k in e.keywords}
        if f == "KNNSubgraph" and args == ["X_train", "Y_train", "I_train"] and not kws and \
                all(a in params for a in args):
            return "ops.new_subgraph s", "state"
        if f in ("self.subgraph.create_arcs", "self.subgraph.calculate_pdf") and len(args) == 4 and args[1:] == SELF3 and not kws:
            k = self.expr(e.args[0], lines, env)
            return (f"ops.create_arcs s {k}", "state+arr") if f.endswith("create_arcs") else (f"ops.calculate_pdf s {k}", "state")
        if f == "self.subgraph.destroy_arcs" and not args and not kws:
            return "ops.destroy_arcs s", "state"
        if f == "self._clustering":
            if self.cls.name == "KNNSupervisedOPF":
                if not args and not kws:
                    return "ops.knn_clustering s false", "state"
                if not args and list(kws) == ["force_prototype"] and kws["force_prototype"] in ("True", "False"):
                    return f"ops.knn_clustering s {kws['force_prototype'].lower()}", "state"
            elif len(args) == 1 and not kws:
                k = self.expr(e.args[0], lines, env)
                return f"ops.uns_clustering s {k}", "state"
        if f == "self._normalized_cut" and len(args) == 1 and not kws:
            k = self.expr(e.args[0], lines, env)
            return f"ops.normalized_cut s {k}", "float"
        if f == "self.predict" and args == ["X_val", "I_val"] and not kws and all(a in params for a in args):
            return "ops.predict_val s", "state+arr"
        if f == "g.opf_accuracy" and len(args) == 2 and args[0] == "Y_val" and "Y_val" in params and \
                isinstance(e.args[1], ast.Name) and env.get(args[1]) == "arr" and not kws:
            return f"ops.opf_accuracy {args[1]}", "float"
        if f.startswith("self.") and f[5:] in self.local_fns:
            lean, ps = self.local_fns[f[5:]]
            if lean == "knn_learn" and args == ["X_train", "Y_train", "I_train", "X_val", "Y_val", "I_val"] and not kws:
                return f"{lean} ops {self.const_args()} s", "state"
            if lean == "uns_best_minimum_cut" and len(args) == 2 and not kws:
                a = self.expr(e.args[0], lines, env)
                b = self.expr(e.args[1], lines, env)
                return f"{lean} ops {self.const_args()} s {a} {b}", "state"
        self.fail(e, f"call `{s}` is not one of the recognised calls on the object")

    CONSTS = ["FLOAT_MAX", "FC_neg_1_0", "FC_0_0"]

    def const_args(self):
        return " ".join(self.CONSTS)

    # ---- statements ----
    def ghost(self, st):
        if isinstance(st, ast.Expr) and isinstance(st.value, ast.Constant) and isinstance(st.value.value, str):
            return True
        if isinstance(st, ast.Expr) and isinstance(st.value, ast.Call) and src(st.value.func).startswith("logger."):
            for a in st.value.args:           # a logger call may still READ an unbound local
                for n in ast.walk(a):
                    if isinstance(n, ast.Call):
                        self.fail(st, "call inside a logging statement")
            return True
        if isinstance(st, ast.Assign) and len(st.targets) == 1 and isinstance(st.targets[0], ast.Name) and \
                st.targets[0].id in ("start", "end", "train_time"):
            if src(st.value) in ("time.time()", "end - start"):
                return True
        return False

    def assigned(self, stmts):
        out = []

        def add(x):
            if x not in out:
                out.append(x)
        for st in stmts:
            for n in ast.walk(st):
                if isinstance(n, ast.Assign):
                    for t in n.targets:
                        if isinstance(t, ast.Name):
                            add(t.id)
                elif isinstance(n, ast.For) and isinstance(n.target, ast.Name):
                    pass
        return out

    def used_after(self, stmts):
        names = set()
        for st in stmts:
            if self.is_logger(st):
                # reading a local inside a logging call still raises when it is unbound
                pass
            for n in ast.walk(st):
                if isinstance(n, ast.Name) and isinstance(n.ctx, ast.Load):
                    names.add(n.id)
        return names

    def is_logger(self, st):
        return isinstance(st, ast.Expr) and isinstance(st.value, ast.Call) and src(st.value.func).startswith("logger.")

    def logger_reads(self, st, lines, env):
        """a logging statement evaluates its arguments: an unbound local raises there."""
        for a in st.value.args[1:]:
            for n in ast.walk(a):
                if isinstance(n, ast.Name) and env.get(n.id) == "opt":
                    t = self.fresh()
                    lines.append(f"let {t} ← {n.id}")

    def block(self, stmts, env, params, ind, rest_after=()):
        """returns lines; `env` is updated in place. State variable is always `s`."""
        lines = []
        for pos, st in enumerate(stmts):
            if self.is_logger(st):
                self.ghost(st)
                self.logger_reads(st, lines, env)
                continue
            if self.ghost(st):
                continue
            if isinstance(st, ast.Raise):
                lines.append("let _r : Unit ← none")
                continue
            if isinstance(st, ast.Expr) and isinstance(st.value, ast.Call):
                term, kind = self.call(st.value, lines, env, params)
                if kind == "state":
                    lines.append(f"let s ← {term}")
                elif kind == "state+arr":
                    lines.append(f"let (s, _) ← {term}")
                else:
                    lines.append(f"let _ ← {term}")
                continue
            if isinstance(st, ast.Assign) and len(st.targets) == 1:
                tg, val = st.targets[0], st.value
                ts = src(tg)
                if ts == "self.subgraph" and isinstance(val, ast.Call):
                    term, kind = self.call(val, lines, env, params)
                    if kind != "state" or not term.startswith("ops.new_subgraph"):
                        self.fail(st, "self.subgraph assigned something else than a fresh KNNSubgraph")
                    lines.append(f"let s ← {term}")
                    continue
                if ts in ("self.subgraph.best_k", "self.subgraph.density", "self.subgraph.trained"):
                    v = self.expr(val, lines, env)
                    lines.append(f"let s ← ops.set_{ts.split('.')[-1]} s {v}")
                    continue
                if isinstance(tg, ast.Name):
                    if isinstance(val, ast.Call):
                        term, kind = self.call(val, lines, env, params)
                        if kind == "state":
                            self.fail(st, "result of a state-only call bound to a name")
                        if kind == "state+arr":
                            lines.append(f"let (s, {tg.id}_v) ← {term}")
                            self.bind(tg.id, "arr", f"{tg.id}_v", lines, env)
                        else:
                            lines.append(f"let {tg.id}_v ← {term}")
                            self.bind(tg.id, "float", f"{tg.id}_v", lines, env)
                        continue
                    v = self.expr(val, lines, env)
                    ty = "float" if self.is_float(val, env) else (env.get(val.id) if isinstance(val, ast.Name) and env.get(val.id) in ("float", "arr") else "int")
                    self.bind(tg.id, ty, v, lines, env)
                    continue
                self.fail(st, f"assignment to `{ts}`")
            if isinstance(st, ast.If):
                cond = self.expr(st.test, lines, env)
                live = self.assigned(st.body + st.orelse)
                carried = [v for v in live if v in env]
                newv = [v for v in live if v not in env]
                later = self.used_after(list(stmts[pos + 1:]) + list(rest_after))
                for v in newv:
                    if v in later:
                        self.fail(st, f"local `{v}` first bound inside a branch and read later")
                tup = self.tuple(["s"] + carried)
                e1, e2 = dict(env), dict(env)
                b1 = self.block(st.body, e1, params, ind, ())
                b2 = self.block(st.orelse, e2, params, ind, ())
                for v in carried:
                    if e1[v] != env[v] or e2[v] != env[v]:
                        self.fail(st, f"local `{v}` changes kind inside a branch")
                lines.append(f"let {tup} ← (if {cond} then (do")
                lines += ["    " + ln for ln in b1] + [f"    pure {tup}) else (do"]
                lines += ["    " + ln for ln in b2] + [f"    pure {tup}))"]
                continue
            if isinstance(st, ast.For) and isinstance(st.target, ast.Name) and isinstance(st.iter, ast.Call) and \
                    src(st.iter.func) == "range" and len(st.iter.args) == 2 and not st.orelse:
                lo = self.expr(st.iter.args[0], lines, env)
                hi = self.expr(st.iter.args[1], lines, env)
                kv = st.target.id
                live = self.assigned(st.body)
                later = self.used_after(list(stmts[pos + 1:]) + list(rest_after))
                carried = []
                for v in live:
                    if v in env:
                        carried.append(v)
                    elif v in later:
                        env[v] = "opt"           # bound only inside the loop, read after it
                        lines.append(f"let {v} : Option Int := none")
                        carried.append(v)
                if kv in later:
                    self.fail(st, "loop variable read after the loop")
                tup = self.tuple(["s"] + carried)
                e1 = dict(env)
                e1[kv] = "int"
                body = self.block(st.body, e1, params, ind, ())
                for v in carried:
                    if e1[v] != env[v]:
                        self.fail(st, f"local `{v}` changes kind inside the loop")
                lo_v, n_v = self.fresh(), self.fresh()
                lines.append(f"let {lo_v} := {lo}")
                lines.append(f"let {n_v} := {hi} - {lo_v}")
                lines.append(f"let {tup} ← Py.forRange {n_v} (fun q {tup} => do")
                lines.append(f"    let {kv} := {lo_v} + q")
                lines += ["    " + ln for ln in body] + [f"    pure {tup}) {tup}"]
                continue
            self.fail(st, f"statement `{src(st).splitlines()[0]}`")
        return lines

    def bind(self, name, ty, val, lines, env):
        if env.get(name) == "opt":
            if ty != "int":
                self.fail(None, f"maybe-unbound local `{name}` of kind {ty}")
            lines.append(f"let {name} : Option Int := some {val}")
            return
        if name in env and env[name] != ty:
            self.fail(None, f"local `{name}` re-bound with another kind ({env[name]} → {ty})")
        env[name] = ty
        lines.append(f"let {name} := {val}")

    def tuple(self, names):
        return names[0] if len(names) == 1 else "(" + ", ".join(names) + ")"

    def method(self, pyname, leanname, int_params, doc):
        fn = None
        for n in self.cls.body:
            if isinstance(n, ast.FunctionDef) and n.name == pyname:
                fn = n
        if fn is None:
            raise Untranslatable(f"{self.rel}: method {pyname} not found")
        params = [a.arg for a in fn.args.args][1:]
        for p in int_params:
            if p not in params:
                self.fail(fn, f"parameter `{p}` expected")
        env = {p: "int" for p in int_params}
        body = self.block(fn.body, env, params, 1, ())
        sig = " ".join(f"({p} : Int)" for p in int_params)
        out = [f"/-- `{self.cls.name}.{pyname}` ({self.rel}:{fn.lineno}) — {doc} -/",
               f"def {leanname} {{σ : Type}} (ops : SelOps σ) (FLOAT_MAX FC_neg_1_0 FC_0_0 : Int) (s : σ) {sig}: Option σ := do"]
        out += ["  " + ln for ln in body] + ["  pure s", ""]
        for text, name in self.consts.items():
            if name not in self.CONSTS:
                self.fail(fn, f"float literal {text} has no parameter")
        self.local_fns[pyname] = (leanname, int_params)
        return out


def translate_select(repo, gen, write):
    head = ["/- GENERATED by tools/translate_sel.py from /repo/opfython/models/{knn_supervised,unsupervised}.py — do not edit. -/",
            "import OpfVerif.Model.SelOps", "set_option linter.unusedVariables false",
            "namespace Opf.Gen.SelImp", "open Opf", ""]
    try:
        rel = "opfython/models/knn_supervised.py"
        k = SelFn(os.path.join(repo, rel), rel, "KNNSupervisedOPF")
        body = k.method("_learn", "knn_learn", [], "the search for the best `k` over the validation set")
        body += k.method("fit", "knn_fit", [], "training: the search, then the final model")
        rel = "opfython/models/unsupervised.py"
        u = SelFn(os.path.join(repo, rel), rel, "UnsupervisedOPF")
        body += u.method("_best_minimum_cut", "uns_best_minimum_cut", ["min_k", "max_k"], "the search for the k of lowest normalised cut")
        body += u.method("fit", "uns_fit", [], "training: the search, then the final clustering")
        err = None
    except Untranslatable as ex:
        body = ['theorem untranslatable : False := by', '  exact (show False from nomatch (⟨⟩ : Unit))  -- ' + str(ex)]
        err = str(ex)
    write(os.path.join(gen, "SelImp.lean"), "\n".join(head + body + ["end Opf.Gen.SelImp"]) + "\n")
    return err


# =====================================================================================================================
# SupervisedOPF.learn  ->  Gen/LearnImp.lean
# =====================================================================================================================
LEARN_DOC = """`SupervisedOPF.learn`: `self` is an abstract state `σ`, a feature row an abstract value `β`, the random generator an
abstract state `ρ`; `fit`, `predict`, `opf_accuracy`, the draw `int(r.generate_uniform_random_number(0, n)[0])`, the list of
node statuses, `np.fabs(a - b)` and `self.subgraph = best.subgraph` are fields of `LearnOps` (arbitrary). Translated
statement by statement: the keep-the-best rule, the error list, the exchange loop with its tuple assignments (a
right-hand side WITHOUT `.copy()` is a numpy view and is read when it is stored, as numpy does), the stopping rule."""


class LearnFn(SelFn):
    CONSTS = ["PROTOTYPE", "C_neg_1", "C_0", "FC_0_0001"]
    BASE = ["s", "rng"]

    def ty(self, kind):
        return {"int": "Int", "float": "Int", "arr": "Array Int", "rows": "Array β", "opt": "Option Int",
                "optobj": "Option σ", "bool": "Bool"}[kind]

    def assigned(self, stmts):
        out = []

        def add(x):
            if x not in out:
                out.append(x)

        def base(t):
            while isinstance(t, ast.Subscript):
                t = t.value
            return t.id if isinstance(t, ast.Name) else None
        for st in stmts:
            for n in ast.walk(st):
                tgts = []
                if isinstance(n, ast.Assign):
                    tgts = n.targets
                elif isinstance(n, ast.AugAssign):
                    tgts = [n.target]
                for t in tgts:
                    for u in (t.elts if isinstance(t, ast.Tuple) else [t]):
                        b = base(u)
                        if b:
                            add(b)
        return out

    def expr(self, e, lines, env):
        s = src(e)
        if isinstance(e, ast.Constant) and isinstance(e.value, int) and not isinstance(e.value, bool):
            return f"({e.value} : Int)"
        if s == "c.PROTOTYPE":
            return "PROTOTYPE"
        if isinstance(e, ast.Call) and src(e.func) == "len" and len(e.args) == 1 and isinstance(e.args[0], ast.Name) \
                and env.get(e.args[0].id) in ("rows", "arr"):
            return f"({e.args[0].id}.size : Int)"
        if isinstance(e, ast.Name) and env.get(e.id) == "optobj":
            t = self.fresh()
            lines.append(f"let {t} ← {e.id}")
            return t
        if isinstance(e, ast.Compare) and len(e.ops) == 1:
            # int literal compared with a float: the literal is the float of the same value
            l, r = e.left, e.comparators[0]
            if self.is_float(l, env) and isinstance(r, ast.Constant) and isinstance(r.value, float):
                a = self.expr(l, lines, env)
                op = {ast.Gt: ">", ast.Lt: "<"}.get(type(e.ops[0]))
                if op and repr(r.value) == "0.0001":
                    return f"decide ({a} {op} FC_0_0001)"
                self.fail(e, "float literal")
        if isinstance(e, ast.BinOp) and isinstance(e.op, ast.Add) and isinstance(e.left, ast.Name) and env.get(e.left.id) == "opt":
            a = self.expr(e.left, lines, env)
            b = self.expr(e.right, lines, env)
            return f"({a} + {b})"
        return super().expr(e, lines, env)

    def is_float(self, e, env):
        return isinstance(e, ast.Name) and env.get(e.id) == "float"

    def tuple_of(self, carried):
        names = self.BASE + carried
        return "(" + ", ".join(names) + ")"

    def logger_reads(self, st, lines, env):
        for a in st.value.args[1:]:
            for n in ast.walk(a):
                if isinstance(n, ast.Name):
                    if n.id not in env:
                        self.fail(st, f"logging statement reads `{n.id}`, not a local")
                    if env.get(n.id) in ("opt", "optobj"):
                        t = self.fresh()
                        lines.append(f"let {t} ← {n.id}")

    def block(self, stmts, env, params, ind, rest_after=(), in_loop=None):
        lines = []
        for pos, st in enumerate(stmts):
            later_stmts = list(stmts[pos + 1:]) + list(rest_after)
            if self.is_logger(st):
                self.ghost(st)
                self.logger_reads(st, lines, env)
                continue
            if self.ghost(st):
                continue
            if isinstance(st, ast.Break):
                if in_loop != "while_true" or pos != len(stmts) - 1:
                    self.fail(st, "break not at the end of a branch of `while True`")
                lines.append("let go := false")
                continue
            if isinstance(st, ast.Expr) and isinstance(st.value, ast.Call):
                if src(st.value) == "self.fit(X_train, Y_train)" and all(env.get(a) for a in ("X_train", "Y_train")):
                    lines.append("let s ← ops.fit s X_train Y_train")
                    continue
                self.fail(st, f"call `{src(st.value)}`")
            if isinstance(st, ast.AugAssign) and isinstance(st.target, ast.Name) and env.get(st.target.id) == "int" and \
                    isinstance(st.op, (ast.Add, ast.Sub)) and isinstance(st.value, ast.Constant) and isinstance(st.value.value, int):
                op = "+" if isinstance(st.op, ast.Add) else "-"
                lines.append(f"let {st.target.id} := {st.target.id} {op} ({st.value.value} : Int)")
                continue
            if isinstance(st, ast.Assign) and len(st.targets) == 1:
                tg, val = st.targets[0], st.value
                vs = src(val)
                if isinstance(tg, ast.Tuple):
                    self.swap(st, lines, env)
                    continue
                if src(tg) == "self.subgraph" and isinstance(val, ast.Attribute) and val.attr == "subgraph" and \
                        isinstance(val.value, ast.Name) and env.get(val.value.id) == "optobj":
                    t = self.fresh()
                    lines.append(f"let {t} ← {val.value.id}")
                    lines.append(f"let s ← ops.restore s {t}")
                    continue
                if isinstance(tg, ast.Name):
                    name = tg.id
                    if vs == "self.predict(X_val)" and env.get("X_val") == "rows":
                        lines.append(f"let (s, {name}_v) ← ops.predict s X_val")
                        self.bind(name, "arr", f"{name}_v", lines, env)
                        continue
                    if isinstance(val, ast.Call) and src(val.func) == "g.opf_accuracy" and len(val.args) == 2 and \
                            all(isinstance(a, ast.Name) and env.get(a.id) == "arr" for a in val.args):
                        lines.append(f"let {name}_v ← ops.opf_accuracy {val.args[0].id} {val.args[1].id}")
                        self.bind(name, "float", f"{name}_v", lines, env)
                        continue
                    if vs == "copy.deepcopy(self)":
                        self.bind(name, "optobj", "s", lines, env)
                        continue
                    if isinstance(val, ast.Call) and src(val.func) == "np.argwhere" and len(val.args) == 1 and \
                            isinstance(val.args[0], ast.Compare) and isinstance(val.args[0].ops[0], ast.NotEq) and \
                            all(isinstance(a, ast.Name) and env.get(a.id) == "arr" for a in (val.args[0].left, val.args[0].comparators[0])):
                        lines.append(f"let {name}_v ← Py.argwhereNe {val.args[0].left.id} {val.args[0].comparators[0].id}")
                        self.bind(name, "arr", f"{name}_v", lines, env)
                        continue
                    if vs == "int(r.generate_uniform_random_number(0, len(X_train))[0])" and env.get("X_train") == "rows":
                        lines.append(f"let ({name}_v, rng) ← ops.rand rng (0 : Int) (X_train.size : Int)")
                        self.bind(name, "int", f"{name}_v", lines, env)
                        continue
                    if isinstance(val, ast.Call) and src(val.func) == "np.fabs" and len(val.args) == 1 and \
                            isinstance(val.args[0], ast.BinOp) and isinstance(val.args[0].op, ast.Sub) and \
                            all(isinstance(a, ast.Name) and env.get(a.id) == "float" for a in (val.args[0].left, val.args[0].right)):
                        self.bind(name, "float", f"ops.fabs_diff {val.args[0].left.id} {val.args[0].right.id}", lines, env)
                        continue
                    if isinstance(val, ast.Subscript) and src(val) == f"{name}[0]" and env.get(name) == "int":
                        continue        # `err = err[0]`: an entry of np.argwhere on a vector is a one-element row holding the position
                    if isinstance(val, ast.Name) and env.get(val.id) in ("float", "int"):
                        self.bind(name, env[val.id], val.id, lines, env)
                        continue
                    if isinstance(val, ast.Constant) and isinstance(val.value, int) and not isinstance(val.value, bool):
                        if name in self.float_locals:
                            c = {-1: "C_neg_1", 0: "C_0"}.get(val.value)
                            if c is None:
                                self.fail(st, "int literal bound to a local that later holds a float")
                            self.bind(name, "float", c, lines, env)
                        else:
                            self.bind(name, "int", f"({val.value} : Int)", lines, env)
                        continue
                    if isinstance(val, ast.UnaryOp) and isinstance(val.op, ast.USub) and isinstance(val.operand, ast.Constant) \
                            and val.operand.value == 1 and name in self.float_locals:
                        self.bind(name, "float", "C_neg_1", lines, env)
                        continue
                self.fail(st, f"assignment `{src(st)[:70]}`")
            if isinstance(st, ast.If):
                conds = []
                cond = self.cond(st.test, lines, env)
                live = self.assigned(st.body + st.orelse)
                has_break = any(isinstance(n, ast.Break) for b in (st.body, st.orelse) for x in b for n in ast.walk(x))
                later = self.used_after(later_stmts)
                carried = []
                for v in live:
                    if v in env:
                        carried.append(v)
                    elif v in later or (in_loop and v in self.read_anywhere):
                        kind = self.first_kind(v)
                        env[v] = kind
                        lines.append(f"let {v} : {self.ty(kind)} := none")
                        carried.append(v)
                if has_break and "go" not in carried:
                    carried.append("go")
                tup = self.tuple_of(carried)
                e1, e2 = dict(env), dict(env)
                b1 = self.block(st.body, e1, params, ind, (), in_loop)
                b2 = self.block(st.orelse, e2, params, ind, (), in_loop)
                lines.append(f"let {tup} ← (if {cond} then (do")
                lines += ["    " + ln for ln in b1] + [f"    pure {tup}) else (do"]
                lines += ["    " + ln for ln in b2] + [f"    pure {tup}))"]
                continue
            if isinstance(st, ast.For) and isinstance(st.target, ast.Name) and not st.orelse:
                it = src(st.iter)
                var = st.target.id
                if it == "self.subgraph.nodes":
                    arr, e1kind = "(ops.statuses s)", "node"
                elif isinstance(st.iter, ast.Name) and env.get(st.iter.id) == "arr":
                    arr, e1kind = st.iter.id, "int"
                else:
                    self.fail(st, f"iteration over `{it}`")
                carried = [v for v in self.assigned(st.body) if v in env]
                tup = self.tuple_of(carried)
                e1 = dict(env)
                e1[var] = e1kind
                body = self.block(st.body, e1, params, ind, (), None)
                lines.append(f"let {tup} ← Py.forEach {arr} (fun {var} {tup} => do")
                lines += ["    " + ln for ln in body] + [f"    pure {tup}) {tup}"]
                continue
            if isinstance(st, ast.While) and not st.orelse:
                is_true = isinstance(st.test, ast.Constant) and st.test.value is True
                carried = [v for v in self.assigned(st.body) if v in env]
                pre = []
                if is_true:
                    # locals first bound inside `while True` that are read on a later iteration or after it
                    for v in self.assigned(st.body):
                        if v not in env and self.maybe_unbound(v, st):
                            kind = self.first_kind(v)
                            env[v] = kind
                            pre.append(f"let {v} : {self.ty(kind)} := none")
                            carried.append(v)
                    env["go"] = "bool"
                    pre.append("let go := true")
                    carried.append("go")
                lines += pre
                tup = self.tuple_of(carried)
                e1 = dict(env)
                body = self.block(st.body, e1, params, ind, (), "while_true" if is_true else None)
                cl = []
                cond = "go" if is_true else self.cond(st.test, cl, e1)
                if cl:
                    self.fail(st, "loop condition with effects")
                lines.append(f"let {tup} ← Py.whileM (fun {tup} => pure ({cond})) (fun {tup} => do")
                lines += ["    " + ln for ln in body] + [f"    pure {tup}) {tup}"]
                continue
            self.fail(st, f"statement `{src(st).splitlines()[0]}`")
        return lines

    def cond(self, t, lines, env):
        s = src(t)
        if isinstance(t, ast.Compare) and len(t.ops) == 1 and isinstance(t.ops[0], ast.NotEq) and src(t.comparators[0]) == "c.PROTOTYPE":
            l = t.left
            if isinstance(l, ast.Attribute) and l.attr == "status" and isinstance(l.value, ast.Name) and env.get(l.value.id) == "node":
                return f"decide ({l.value.id} ≠ PROTOTYPE)"
            if isinstance(l, ast.Attribute) and l.attr == "status" and isinstance(l.value, ast.Subscript) and \
                    src(l.value.value) == "self.subgraph.nodes":
                i = self.expr(l.value.slice, lines, env)
                tt = self.fresh()
                lines.append(f"let {tt} ← Py.idx (ops.statuses s) {i}")
                return f"decide ({tt} ≠ PROTOTYPE)"
        if isinstance(t, ast.BoolOp) and isinstance(t.op, ast.Or):
            return "(" + " || ".join(self.cond(v, lines, env) for v in t.values) + ")"
        return self.expr(t, lines, env)

    def swap(self, st, lines, env):
        """`A[i, :], B[j, :] = B[j, :].copy(), A[i, :].copy()` / `a[i], b[j] = b[j], a[i]`: right-hand sides first, then the
        stores left to right; a row taken WITHOUT `.copy()` is a view and is read when it is stored."""
        tg, val = st.targets[0], st.value
        if not (isinstance(val, ast.Tuple) and len(val.elts) == len(tg.elts) == 2):
            self.fail(st, "tuple assignment form")

        def ref(e):
            # returns (array name, index term, kind)
            if not (isinstance(e, ast.Subscript) and isinstance(e.value, ast.Name)):
                self.fail(st, "tuple assignment operand")
            a = e.value.id
            k = env.get(a)
            sl = e.slice
            if k == "rows":
                if not (isinstance(sl, ast.Tuple) and len(sl.elts) == 2 and isinstance(sl.elts[1], ast.Slice)
                        and sl.elts[1].lower is None and sl.elts[1].upper is None and sl.elts[1].step is None):
                    self.fail(st, "row reference form")
                return a, self.expr(sl.elts[0], lines, env), k
            if k == "arr":
                return a, self.expr(sl, lines, env), k
            self.fail(st, f"`{a}` is not an array")
        rhs = []
        for e in val.elts:
            if isinstance(e, ast.Call) and isinstance(e.func, ast.Attribute) and e.func.attr == "copy" and not e.args:
                a, i, k = ref(e.func.value)
                t = self.fresh()
                lines.append(f"let {t} ← Py.idx {a} {i}")
                rhs.append(("value", t))
            else:
                a, i, k = ref(e)
                if k == "rows":
                    rhs.append(("view", a, i))          # numpy view: read at store time
                else:
                    t = self.fresh()                    # a scalar read of a 1-D array is a value
                    lines.append(f"let {t} ← Py.idx {a} {i}")
                    rhs.append(("value", t))
        for u, r in zip(tg.elts, rhs):
            a, i, k = ref(u)
            if r[0] == "view":
                t = self.fresh()
                lines.append(f"let {t} ← Py.idx {r[1]} {r[2]}")
                v = t
            else:
                v = r[1]
            lines.append(f"let {a} ← Py.setIdx {a} {i} {v}")

    def first_kind(self, v):
        return self.kinds_hint.get(v, "opt")

    def maybe_unbound(self, v, loop):
        return v in self.kinds_hint

    def learn(self):
        fn = None
        for n in self.cls.body:
            if isinstance(n, ast.FunctionDef) and n.name == "learn":
                fn = n
        if fn is None:
            raise Untranslatable(f"{self.rel}: method learn not found")
        params = [a.arg for a in fn.args.args][1:]
        if params != ["X_train", "Y_train", "X_val", "Y_val", "n_iterations"]:
            self.fail(fn, "parameters of learn")
        env = {"X_train": "rows", "Y_train": "arr", "X_val": "rows", "Y_val": "arr", "n_iterations": "int"}
        # locals that hold floats at some point (an int literal bound to them is that float)
        self.float_locals = set()
        changed = True
        while changed:
            changed = False
            for n in ast.walk(fn):
                if isinstance(n, ast.Assign) and len(n.targets) == 1 and isinstance(n.targets[0], ast.Name):
                    v = n.value
                    isf = (isinstance(v, ast.Call) and src(v.func) in ("g.opf_accuracy", "np.fabs")) or \
                          (isinstance(v, ast.Name) and v.id in self.float_locals)
                    if isf and n.targets[0].id not in self.float_locals:
                        self.float_locals.add(n.targets[0].id)
                        changed = True
        # locals bound only under a condition inside the loop and read elsewhere: Option-typed
        self.kinds_hint = {}
        uncond, cond_b = set(), {}

        def scan(stmts, under_if):
            for b in stmts:
                if isinstance(b, (ast.Assign, ast.AugAssign)):
                    tg = b.targets[0] if isinstance(b, ast.Assign) else b.target
                    if isinstance(tg, ast.Name):
                        if under_if:
                            cond_b.setdefault(tg.id, b)
                        else:
                            uncond.add(tg.id)
                elif isinstance(b, ast.If):
                    scan(b.body, True)
                    scan(b.orelse, True)
                elif isinstance(b, (ast.For, ast.While)):
                    scan(b.body, under_if)
        scan(fn.body, False)
        for nm, b in cond_b.items():
            if nm not in uncond and nm not in self.float_locals:
                self.kinds_hint[nm] = "optobj" if isinstance(b, ast.Assign) and src(b.value) == "copy.deepcopy(self)" else "opt"
        self.read_anywhere = {n.id for n in ast.walk(fn) if isinstance(n, ast.Name) and isinstance(n.ctx, ast.Load)}
        body = self.block(fn.body, env, params, 1, ())
        out = [f"/-- `SupervisedOPF.learn` ({self.rel}:{fn.lineno}) -/",
               "def learn {σ β ρ : Type} (ops : LearnOps σ β ρ) (PROTOTYPE C_neg_1 C_0 FC_0_0001 : Int) (s : σ) (rng : ρ)",
               "    (X_train : Array β) (Y_train : Array Int) (X_val : Array β) (Y_val : Array Int) (n_iterations : Int) :",
               "    Option (σ × ρ × Array β × Array Int × Array β × Array Int) := do"]
        out += ["  " + ln for ln in body] + ["  pure (s, rng, X_train, Y_train, X_val, Y_val)", ""]
        return out

    def bind(self, name, ty, val, lines, env):
        if env.get(name) == "opt" and ty == "int":
            lines.append(f"let {name} : Option Int := some {val}")
            return
        if env.get(name) == "optobj" and ty == "optobj":
            lines.append(f"let {name} : Option σ := some {val}")
            return
        if name in env and env[name] != ty:
            self.fail(None, f"local `{name}` re-bound with another kind ({env[name]} → {ty})")
        if ty == "optobj":
            self.fail(None, f"object copy bound to `{name}` outside a conditional")
        env[name] = ty
        lines.append(f"let {name} := {val}")


def translate_learn(repo, gen, write):
    rel = "opfython/models/supervised.py"
    head = [f"/- GENERATED by tools/translate_sel.py from /repo/{rel} — do not edit. -/",
            "import OpfVerif.Model.LearnOps", "set_option linter.unusedVariables false",
            "namespace Opf.Gen.LearnImp", "open Opf", "",
            "/-- " + LEARN_DOC + " -/", "def doc : Unit := ()", ""]
    try:
        t = LearnFn(os.path.join(repo, rel), rel, "SupervisedOPF")
        body = t.learn()
        err = None
    except Untranslatable as ex:
        body = ['theorem untranslatable : False := by', '  exact (show False from nomatch (⟨⟩ : Unit))  -- ' + str(ex)]
        err = str(ex)
    write(os.path.join(gen, "LearnImp.lean"), "\n".join(head + body + ["end Opf.Gen.LearnImp"]) + "\n")
    return err



# =====================================================================================================================
# SupervisedOPF.prune  ->  Gen/PruneImp.lean
# =====================================================================================================================
class PruneFn(LearnFn):
    CONSTS = ["IRRELEVANT"]

    def block(self, stmts, env, params, ind, rest_after=(), in_loop=None):
        lines = []
        rest = []
        for pos, st in enumerate(stmts):
            s_ = src(st)
            handled = True
            if isinstance(st, ast.Assign) and len(st.targets) == 1 and isinstance(st.targets[0], ast.Tuple) and \
                    isinstance(st.value, ast.Tuple) and all(isinstance(v, ast.List) and not v.elts for v in st.value.elts) and \
                    all(isinstance(u, ast.Name) for u in st.targets[0].elts):
                for u in st.targets[0].elts:
                    k = self.list_kinds.get(u.id)
                    if k is None:
                        self.fail(st, f"list `{u.id}` is never appended to")
                    env[u.id] = k
                    lines.append(f"let {u.id} : {self.ty(k)} := #[]")
            elif isinstance(st, ast.Expr) and isinstance(st.value, ast.Call) and isinstance(st.value.func, ast.Attribute) and \
                    st.value.func.attr == "append" and isinstance(st.value.func.value, ast.Name) and len(st.value.args) == 1:
                lst = st.value.func.value.id
                a = st.value.args[0]
                if env.get(lst) == "rows" and isinstance(a, ast.Subscript) and isinstance(a.value, ast.Name) and env.get(a.value.id) == "rows" \
                        and isinstance(a.slice, ast.Tuple) and len(a.slice.elts) == 2 and src(a.slice.elts[1]) == ":":
                    i = self.expr(a.slice.elts[0], lines, env)
                    t = self.fresh()
                    lines += [f"let {t} ← Py.idx {a.value.id} {i}", f"let {lst} := {lst}.push {t}"]
                elif env.get(lst) == "arr" and isinstance(a, ast.Subscript) and isinstance(a.value, ast.Name) and env.get(a.value.id) == "arr":
                    i = self.expr(a.slice, lines, env)
                    t = self.fresh()
                    lines += [f"let {t} ← Py.idx {a.value.id} {i}", f"let {lst} := {lst}.push {t}"]
                else:
                    self.fail(st, f"append `{s_}`")
            elif isinstance(st, ast.Assign) and len(st.targets) == 1 and isinstance(st.targets[0], ast.Name) and \
                    isinstance(st.value, ast.Call) and src(st.value.func) == "np.asarray" and len(st.value.args) == 1 and \
                    isinstance(st.value.args[0], ast.Name) and env.get(st.value.args[0].id) in ("rows", "arr"):
                nm, srcv = st.targets[0].id, st.value.args[0].id
                if nm in env and env[nm] != env[srcv]:
                    self.fail(st, "array re-bound with another kind")
                env[nm] = env[srcv]
                lines.append(f"let {nm} := {srcv}")
            elif s_ == "self.predict(X_val)" and env.get("X_val") == "rows":
                lines.append("let (s, _) ← ops.predict s X_val")
            elif isinstance(st, ast.Assign) and len(st.targets) == 1 and isinstance(st.targets[0], ast.Name) and \
                    src(st.value) == "self.subgraph.n_nodes":
                self.bind(st.targets[0].id, "int", "(ops.n_nodes s)", lines, env)
            elif isinstance(st, ast.Assign) and len(st.targets) == 1 and isinstance(st.targets[0], ast.Name) and \
                    isinstance(st.value, ast.BinOp) and isinstance(st.value.op, ast.Sub) and isinstance(st.value.right, ast.BinOp) and \
                    isinstance(st.value.right.op, ast.Div) and all(isinstance(x, ast.Name) and env.get(x.id) == "int"
                                                                   for x in (st.value.right.left, st.value.right.right)):
                # `<float> = 1 - a / b` on two ints: only logged; what matters is the ZeroDivisionError
                d = st.value.right.right.id
                lines.append(f"let _z : Unit ← (if {d} = 0 then none else pure ())")
                env[st.targets[0].id] = "ghostfloat"
            elif isinstance(st, ast.For) and isinstance(st.target, ast.Tuple) and len(st.target.elts) == 2 and \
                    src(st.iter) == "enumerate(self.subgraph.nodes)" and not st.orelse:
                jv, nv = (u.id for u in st.target.elts)
                carried = [v for v in self.assigned_lists(st.body) if v in env]
                tup = self.tuple_of(carried)
                e1 = dict(env)
                e1[jv] = "int"
                e1[nv] = "node"
                body = self.block(st.body, e1, params, ind, (), None)
                lines.append(f"let {tup} ← Py.forEnum (ops.relevants s) (fun {jv} {nv} {tup} => do")
                lines += ["    " + ln for ln in body] + [f"    pure {tup}) {tup}"]
            elif isinstance(st, ast.For) and isinstance(st.target, ast.Name) and src(st.iter) == "range(n_iterations)" and not st.orelse:
                tv = st.target.id
                carried = [v for v in self.assigned_lists(st.body) if v in env and v not in ("X_temp", "Y_temp")]
                tup = self.tuple_of(carried)
                e1 = dict(env)
                e1[tv] = "int"
                body = self.block(st.body, e1, params, ind, (), None)
                lines.append(f"let {tup} ← Py.forRange n_iterations (fun {tv} {tup} => do")
                lines += ["    " + ln for ln in body] + [f"    pure {tup}) {tup}"]
            elif isinstance(st, ast.If) and not st.orelse and isinstance(st.test, ast.Compare) and \
                    src(st.test.comparators[0]) == "c.IRRELEVANT" and isinstance(st.test.ops[0], ast.NotEq) and \
                    isinstance(st.test.left, ast.Attribute) and st.test.left.attr == "relevant" and \
                    isinstance(st.test.left.value, ast.Name) and env.get(st.test.left.value.id) == "node":
                carried = [v for v in self.assigned_lists(st.body) if v in env]
                tup = self.tuple_of(carried)
                e1 = dict(env)
                body = self.block(st.body, e1, params, ind, (), None)
                lines.append(f"let {tup} ← (if decide ({st.test.left.value.id} ≠ IRRELEVANT) then (do")
                lines += ["    " + ln for ln in body] + [f"    pure {tup}) else pure {tup})"]
            else:
                handled = False
            if not handled:
                lines += super().block([st], env, params, ind, list(stmts[pos + 1:]) + list(rest_after), in_loop)
        return lines

    def assigned_lists(self, stmts):
        out = list(self.assigned(stmts))
        for st in stmts:
            for n in ast.walk(st):
                if isinstance(n, ast.Call) and isinstance(n.func, ast.Attribute) and n.func.attr == "append" and \
                        isinstance(n.func.value, ast.Name) and n.func.value.id not in out:
                    out.append(n.func.value.id)
        return out

    def logger_reads(self, st, lines, env):
        for a in st.value.args[1:]:
            for n in ast.walk(a):
                if isinstance(n, ast.Name) and n.id not in env:
                    self.fail(st, f"logging statement reads `{n.id}`, not a local")

    def prune(self):
        fn = None
        for n in self.cls.body:
            if isinstance(n, ast.FunctionDef) and n.name == "prune":
                fn = n
        if fn is None:
            raise Untranslatable(f"{self.rel}: method prune not found")
        params = [a.arg for a in fn.args.args][1:]
        if params != ["X_train", "Y_train", "X_val", "Y_val", "n_iterations"]:
            self.fail(fn, "parameters of prune")
        env = {"X_train": "rows", "Y_train": "arr", "X_val": "rows", "Y_val": "arr", "n_iterations": "int"}
        self.float_locals = {"acc"}
        self.kinds_hint = {}
        self.read_anywhere = set()
        self.list_kinds = {}
        for n in ast.walk(fn):
            if isinstance(n, ast.Call) and isinstance(n.func, ast.Attribute) and n.func.attr == "append" and \
                    isinstance(n.func.value, ast.Name) and len(n.args) == 1 and isinstance(n.args[0], ast.Subscript) and \
                    isinstance(n.args[0].value, ast.Name) and n.args[0].value.id in env:
                self.list_kinds[n.func.value.id] = env[n.args[0].value.id]
        body = self.block(fn.body, env, params, 1, ())
        out = [f"/-- `SupervisedOPF.prune` ({self.rel}:{fn.lineno}); returns the object and the training set it ends with -/",
               "def prune {σ β : Type} (ops : PruneOps σ β) (IRRELEVANT : Int) (s : σ) (rng : Unit)",
               "    (X_train : Array β) (Y_train : Array Int) (X_val : Array β) (Y_val : Array Int) (n_iterations : Int) :",
               "    Option (σ × Array β × Array Int) := do"]
        out += ["  " + ln for ln in body] + ["  pure (s, X_train, Y_train)", ""]
        return out


def translate_prune(repo, gen, write):
    rel = "opfython/models/supervised.py"
    head = [f"/- GENERATED by tools/translate_sel.py from /repo/{rel} — do not edit. -/",
            "import OpfVerif.Model.PruneOps", "set_option linter.unusedVariables false",
            "namespace Opf.Gen.PruneImp", "open Opf", ""]
    try:
        t = PruneFn(os.path.join(repo, rel), rel, "SupervisedOPF")
        body = t.prune()
        err = None
    except Untranslatable as ex:
        body = ['theorem untranslatable : False := by', '  exact (show False from nomatch (⟨⟩ : Unit))  -- ' + str(ex)]
        err = str(ex)
    write(os.path.join(gen, "PruneImp.lean"), "\n".join(head + body + ["end Opf.Gen.PruneImp"]) + "\n")
    return err


if __name__ == "__main__":
    import sys

    def w(p, t):
        open(p, "w").write(t)
    os.makedirs("/tmp/gen_try", exist_ok=True)
    print(translate_select(sys.argv[1] if len(sys.argv) > 1 else "/repo", "/tmp/gen_try", w))
    print(open("/tmp/gen_try/SelImp.lean").read())
    print(translate_learn(sys.argv[1] if len(sys.argv) > 1 else "/repo", "/tmp/gen_try", w))
    print(open("/tmp/gen_try/LearnImp.lean").read())
    print(translate_prune(sys.argv[1] if len(sys.argv) > 1 else "/repo", "/tmp/gen_try", w))
    print(open("/tmp/gen_try/PruneImp.lean").read())
