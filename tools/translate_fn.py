#!/venv/bin/python
"""Statement-level translator for the training/prediction methods that run on a `Subgraph` and a
`Heap` (DESIGN §2.1b):

    opfython/core/subgraph.py   Subgraph.mark_nodes
    opfython/models/supervised.py  SupervisedOPF._find_prototypes, .fit
        ->  lean/OpfVerif/Gen/SupImp.lean

Built on `translate_imp.py` (whose translation of `Heap` the generated code calls).  Only the AST is
read.  The object graph is flattened as follows (trusted reading, DESIGN §6):

  * `self.subgraph` is the record `SG` — a struct of arrays: `self.subgraph.nodes[i].F` is
    `sg.F[i]` (Python indexing: negative indices wrap, out of range raises), `n_nodes` is
    `len(nodes)`, `idx_nodes.append(p)` pushes.  A store to a `Node` property runs the guards of
    that property's setter in `core/node.py` (value tests become `none`; `isinstance` tests are
    decided from the annotations).
  * `self.subgraph = Subgraph(X, Y, I=…)` binds `sg` to the parameter `sg0` (the subgraph built from
    the arguments: construction is outside this translation).
  * `h = Heap(…)` is `HeapImp.Obj.init` with the defaults of `Heap.__init__`; `h.m(…)` calls the
    translated method; `h.cost[i] = v` is a list store.
  * the two-branch arc-weight lookup
        if self.pre_computed_distance: w = self.pre_distances[A.idx][B.idx]
        else:                          w = self.distance_fn(A.features, B.features)
    must name the SAME two nodes in the SAME order in both branches and becomes `W a b`, an abstract
    partial function of the two node POSITIONS (C10 and C07 are what justify this reading).
  * `np.maximum(a, b)` on two costs is `max`.
  * `logger.*(…)`, `time.time()` and names computed only from them are dropped.
  * `x = h.remove()` coerces the `int | bool` result to `int` (`False` is `0` in every context the
    translated code uses it: index, comparison, store into an int field).
Anything else raises `Untranslatable` — a broken proof obligation, never skipped.
"""
import ast
import os

from translate_imp import (Imp, Untranslatable, INT, FLOAT, BOOL, STR, UNIT, LINT, LFLOAT, INT_OR_BOOL, LEAN_TY)

HEAP, SGT = "heap", "sg"
LEAN_TY2 = dict(LEAN_TY)
LEAN_TY2[HEAP] = "HeapImp.Obj"
LEAN_TY2[SGT] = "SG"
LL = "list[list[int]]"


class NodeFields:
    """fields of core/node.py with the raise-conditions of their setters."""

    def __init__(self, repo, consts, rel="opfython/core/node.py", clsname="Node"):
        self.path = os.path.join(repo, rel)
        self.consts = consts
        tree = ast.parse(open(self.path).read())
        cls = [n for n in tree.body if isinstance(n, ast.ClassDef) and n.name == clsname]
        if not cls:
            raise Untranslatable(f"{rel}: class {clsname} not found")
        self.types, self.guards = {}, {}
        self.init_params, self.init_defaults = [], {}
        for n in cls[0].body:
            if isinstance(n, ast.FunctionDef) and n.name == "__init__":
                self.init_params = [a.arg for a in n.args.args[1:]]
                for st in n.body:
                    if Imp.is_doc(st):
                        continue
                    if not (isinstance(st, ast.Assign) and len(st.targets) == 1 and isinstance(st.targets[0], ast.Attribute)
                            and isinstance(st.targets[0].value, ast.Name) and st.targets[0].value.id == "self"):
                        if clsname == "Node":
                            raise Untranslatable(f"{rel}:{st.lineno}: statement in Node.__init__")
                        continue
                    self.init_defaults[st.targets[0].attr] = st.value
        for n in cls[0].body:
            if not isinstance(n, ast.FunctionDef):
                continue
            decs = [ast.unparse(d) for d in n.decorator_list]
            if decs == ["property"]:
                body = [s for s in n.body if not Imp.is_doc(s)]
                if not (len(body) == 1 and isinstance(body[0], ast.Return)
                        and ast.unparse(body[0].value) == f"self._{n.name}"):
                    raise Untranslatable(f"opfython/core/node.py:{n.lineno}: getter of {n.name}")
                t = ast.unparse(n.returns) if n.returns else None
                self.types[n.name] = {"int": INT, "float": FLOAT, "List[int]": LINT}.get(t)
            elif len(decs) == 1 and decs[0].endswith(".setter"):
                self.guards[n.name] = n

    def default(self, field, args):
        """Lean term of the value `Node(*args)` gives to `field` (args: param name -> Lean int term)."""
        v = self.init_defaults.get(field)
        if v is None:
            raise Untranslatable(f"opfython/core/node.py: Node.__init__ does not initialise {field}")
        if isinstance(v, ast.Name) and v.id in args:
            return args[v.id]
        if isinstance(v, ast.Constant) and isinstance(v.value, (int, float)) and not isinstance(v.value, bool) \
                and float(v.value) == int(v.value):
            return f"({int(v.value)} : Int)"
        if isinstance(v, ast.Attribute) and isinstance(v.value, ast.Name) and v.value.id == "c" \
                and isinstance(self.consts.get(v.attr), int):
            return f"({self.consts[v.attr]} : Int)"
        raise Untranslatable(f"opfython/core/node.py:{v.lineno}: initial value of {field}")

    def guard(self, field, val):
        """Lean Bool term: the setter of `field` raises on value `val` (value tests only)."""
        fn = self.guards[field]
        param = fn.args.args[1].arg
        conds = []
        body = [s for s in fn.body if not Imp.is_doc(s)]
        for s in body[:-1]:
            if not (isinstance(s, ast.If) and not s.orelse and len(s.body) == 1 and isinstance(s.body[0], ast.Raise)):
                raise Untranslatable(f"opfython/core/node.py:{s.lineno}: setter statement")
            t = s.test
            if isinstance(t, ast.UnaryOp) and isinstance(t.op, ast.Not) and isinstance(t.operand, ast.Call) \
                    and ast.unparse(t.operand.func) == "isinstance":
                continue   # decided from the annotations
            conds.append(self.cond(t, param, val, s))
        last = body[-1]
        if not (isinstance(last, ast.Assign) and ast.unparse(last.targets[0]) == f"self._{field}"
                and ast.unparse(last.value) == param):
            raise Untranslatable(f"opfython/core/node.py:{last.lineno}: setter does not end in self._{field} = {param}")
        return conds

    def cval(self, e, param, val, node):
        if isinstance(e, ast.Name) and e.id == param:
            return val
        if isinstance(e, ast.Constant) and isinstance(e.value, int) and not isinstance(e.value, bool):
            return f"({e.value} : Int)"
        if isinstance(e, ast.Attribute) and isinstance(e.value, ast.Name) and e.value.id == "c" \
                and isinstance(self.consts.get(e.attr), int):
            return f"({self.consts[e.attr]} : Int)"
        raise Untranslatable(f"opfython/core/node.py:{node.lineno}: guard operand {ast.unparse(e)}")

    def cond(self, t, param, val, node):
        if isinstance(t, ast.Compare) and len(t.ops) == 1:
            op = t.ops[0]
            a = self.cval(t.left, param, val, node)
            if isinstance(op, (ast.NotIn, ast.In)) and isinstance(t.comparators[0], ast.List):
                lst = "[" + ", ".join(self.cval(x, param, val, node) for x in t.comparators[0].elts) + "]"
                r = f"({lst}.contains {a})"
                return f"(!{r})" if isinstance(op, ast.NotIn) else r
            ops = {ast.Lt: "<", ast.LtE: "≤", ast.Gt: ">", ast.GtE: "≥", ast.Eq: "=", ast.NotEq: "≠"}
            if type(op) in ops:
                b = self.cval(t.comparators[0], param, val, node)
                return f"(decide ({a} {ops[type(op)]} {b}))"
        raise Untranslatable(f"opfython/core/node.py:{node.lineno}: guard {ast.unparse(t)}")


class FnImp:
    def __init__(self, repo, consts, heap: Imp, nodes: NodeFields):
        self.repo, self.consts, self.heap, self.nodes = repo, consts, heap, nodes
        self.tmp = 0
        self.used_fields = []
        self.fixed_fields = False
        self.len_params = []
        self.struct = "SG"
        self.sg_props = None      # PropFields of the subgraph class for extra int attributes (n_clusters …)
        self.used_sg_fields = []
        self.bool_params = []

    # ---------------------------------------------------------------- helpers
    def fail(self, node, msg):
        raise Untranslatable(f"untranslatable construct at {self.rel}:{getattr(node, 'lineno', '?')}: {msg}")

    def fresh(self):
        self.tmp += 1
        return f"t{self.tmp}"

    ind = staticmethod(Imp.ind)

    def sg_of(self, e):
        """`self.subgraph` -> 'sg'; a local bound to a Subgraph -> its name; else None."""
        if self.cls in ("Subgraph", "KNNSubgraph") and isinstance(e, ast.Name) and e.id == "self":
            return "sg"
        if isinstance(e, ast.Attribute) and isinstance(e.value, ast.Name) and e.value.id == "self" \
                and e.attr == "subgraph" and self.cls not in ("Subgraph", "KNNSubgraph"):
            return "sg"
        if isinstance(e, ast.Name) and self.env.get(e.id) == SGT:
            return e.id
        return None

    def node_ref(self, e):
        """`<subgraph>.nodes[E]` -> (sg name, E) else None."""
        if isinstance(e, ast.Subscript) and isinstance(e.value, ast.Attribute) and e.value.attr == "nodes":
            s = self.sg_of(e.value.value)
            if s:
                return s, e.slice
        return None

    def field(self, f, node):
        t = self.nodes.types.get(f)
        if t is None:
            self.fail(node, f"node field {f} is not an int/float/List[int] property")
        if f not in self.used_fields:
            if self.fixed_fields:
                self.fail(node, f"node field {f} is not part of the flattened subgraph SG")
            self.used_fields.append(f)
        return t

    def float_const(self, v):
        """a float literal other than 0: an opaque parameter standing for its encoding."""
        if float(v) == 0.0:
            return "(0 : Int)"
        nm = "FC_" + repr(float(v)).replace(".", "_").replace("-", "m").replace("+", "")
        if nm not in self.fconsts:
            self.fconsts.append(nm)
        return nm

    def sgf(self, attr):
        """name of a subgraph-level field (prefixed when a per-node field has the same name, e.g. `density`)."""
        return f"sg_{attr}" if attr in self.used_fields else attr

    def as_float(self, term, ty, node, src=None):
        if ty == FLOAT:
            return term
        if ty == INT and isinstance(src, ast.Constant) and isinstance(src.value, int) and not isinstance(src.value, bool):
            return self.float_const(float(src.value))      # an int literal stored where a float lives
        if ty == INT:
            self.uses.add("fo")
            return f"(fo.ofInt {term})"                    # an int value stored where a float lives
        self.fail(node, f"{ty} where a float is needed")

    def as_int(self, term, ty, node):
        if ty == INT:
            return term
        if ty == INT_OR_BOOL:
            return f"(Py.asInt {term})"
        self.fail(node, f"{ty} where an int is needed")

    # ---------------------------------------------------------------- expressions
    def expr(self, e, lines, in_branch=False):
        env = self.env
        if isinstance(e, ast.Constant):
            v = e.value
            if isinstance(v, bool):
                return ("true" if v else "false"), BOOL
            if isinstance(v, int):
                return f"({v} : Int)", INT
            if isinstance(v, float):
                return self.float_const(v), FLOAT
            self.fail(e, f"constant {v!r}")
        if isinstance(e, ast.Name):
            if e.id not in env:
                self.fail(e, f"name {e.id} not bound on every path")
            return e.id, env[e.id]
        if isinstance(e, ast.Attribute):
            if isinstance(e.value, ast.Name) and e.value.id == "c":
                v = self.consts.get(e.attr)
                if v == "FLOAT_MAX":
                    self.uses.add("FLOAT_MAX")
                    return "FLOAT_MAX", FLOAT
                if isinstance(v, int):
                    return f"({v} : Int)", INT
                if isinstance(v, float):
                    return self.float_const(v), FLOAT
                self.fail(e, f"constant {e.attr}")
            s = self.sg_of(e.value)
            if s and e.attr == "n_nodes":
                return f"{s}.n_nodes", INT
            if s and e.attr == "trained":
                return f"{s}.trained", BOOL
            if s and self.sg_props is not None and self.sg_props.types.get(e.attr) in (INT, FLOAT):
                if e.attr not in self.used_sg_fields:
                    self.used_sg_fields.append(e.attr)
                return f"{s}.{self.sgf(e.attr)}", self.sg_props.types[e.attr]
            nr = self.node_ref(e.value)
            if nr:
                s, ie = nr
                i, ti = self.expr(ie, lines, in_branch)
                i = self.as_int(i, ti, e)
                ft = self.field(e.attr, e)
                if ft == LINT:
                    self.fail(e, f"reference to the list {ast.unparse(e)} outside a subscript, a `for … in`, or `.insert(0, …)` (aliasing)")
                t = self.fresh()
                lines.append(f"let {t} ← Py.idx {s}.{e.attr} {i}")
                return t, ft
            self.fail(e, f"attribute {ast.unparse(e)}")
        if isinstance(e, ast.Subscript):
            v = e.value
            if isinstance(v, ast.Attribute) and self.node_ref(v.value) and self.nodes.types.get(v.attr) == LINT:
                sgn, ie = self.node_ref(v.value)
                self.field(v.attr, e)
                i, ti = self.expr(ie, lines, in_branch)
                k_, tk = self.expr(e.slice, lines, in_branch)
                a = self.fresh()
                t = self.fresh()
                lines.append(f"let {a} ← Py.idx {sgn}.{v.attr} {self.as_int(i, ti, e)}")
                lines.append(f"let {t} ← Py.idx {a} {self.as_int(k_, tk, e)}")
                return t, INT
            if isinstance(v, ast.Attribute) and v.attr == "idx_nodes" and self.sg_of(v.value):
                i, ti = self.expr(e.slice, lines, in_branch)
                t = self.fresh()
                lines.append(f"let {t} ← Py.idx {self.sg_of(v.value)}.idx_nodes {self.as_int(i, ti, e)}")
                return t, INT
            if isinstance(v, ast.Name) and env.get(v.id) in (LINT, LFLOAT):
                i, ti = self.expr(e.slice, lines, in_branch)
                t = self.fresh()
                lines.append(f"let {t} ← Py.idx {v.id} {self.as_int(i, ti, e)}")
                return t, (INT if env[v.id] == LINT else FLOAT)
            if isinstance(v, ast.Attribute) and isinstance(v.value, ast.Name) and env.get(v.value.id) == HEAP \
                    and self.heap.fields.get(v.attr) in (LINT, LFLOAT):
                i, ti = self.expr(e.slice, lines, in_branch)
                t = self.fresh()
                lines.append(f"let {t} ← Py.idx {v.value.id}.{v.attr} {self.as_int(i, ti, e)}")
                return t, (INT if self.heap.fields[v.attr] == LINT else FLOAT)
            self.fail(e, f"subscript {ast.unparse(e)}")
        if isinstance(e, ast.BinOp):
            a, ta = self.expr(e.left, lines, in_branch)
            b, tb = self.expr(e.right, lines, in_branch)
            if ta == INT_OR_BOOL:
                a, ta = self.as_int(a, ta, e), INT
            if tb == INT_OR_BOOL:
                b, tb = self.as_int(b, tb, e), INT
            fops = {ast.Add: "add", ast.Sub: "sub", ast.Mult: "mul", ast.Div: "div"}
            if (FLOAT in (ta, tb) or isinstance(e.op, ast.Div)) and type(e.op) in fops and {ta, tb} <= {INT, FLOAT}:
                # float arithmetic (ints are converted first, as Python does): an operation of `fo`, uninterpreted
                self.uses.add("fo")
                fa = a if ta == FLOAT else f"(fo.ofInt {a})"
                fb_ = b if tb == FLOAT else f"(fo.ofInt {b})"
                return f"(fo.{fops[type(e.op)]} {fa} {fb_})", FLOAT
            ops = {ast.Add: "+", ast.Sub: "-", ast.Mult: "*"}
            if type(e.op) not in ops:
                self.fail(e, "binary operator")
            return f"({self.as_int(a, ta, e)} {ops[type(e.op)]} {self.as_int(b, tb, e)})", INT
        if isinstance(e, ast.UnaryOp) and isinstance(e.op, ast.Not):
            a, ta = self.expr(e.operand, lines, in_branch)
            if ta != BOOL:
                self.fail(e, f"not of {ta}")
            return f"(!{a})", BOOL
        if isinstance(e, ast.UnaryOp) and isinstance(e.op, ast.USub):
            a, ta = self.expr(e.operand, lines, in_branch)
            if ta == FLOAT:
                return f"(-{a})", FLOAT     # the encoding of costs is odd: enc(-x) = -enc(x)
            return f"(-{self.as_int(a, ta, e)})", INT
        if isinstance(e, ast.Compare):
            if len(e.ops) != 1:
                self.fail(e, "chained comparison")
            a, ta = self.expr(e.left, lines, in_branch)
            b, tb = self.expr(e.comparators[0], lines, in_branch)
            if ta == INT_OR_BOOL:
                a, ta = self.as_int(a, ta, e), INT
            if tb == INT_OR_BOOL:
                b, tb = self.as_int(b, tb, e), INT
            if {ta, tb} == {INT, FLOAT}:
                if ta == INT:
                    a, ta = self.as_float(a, ta, e, e.left), FLOAT
                else:
                    b, tb = self.as_float(b, tb, e, e.comparators[0]), FLOAT
            if ta != tb or ta not in (INT, FLOAT):
                self.fail(e, f"comparison of {ta} with {tb}")
            ops = {ast.Eq: "=", ast.NotEq: "≠", ast.Lt: "<", ast.LtE: "≤", ast.Gt: ">", ast.GtE: "≥"}
            if type(e.ops[0]) not in ops:
                self.fail(e, "comparison operator")
            return f"(decide ({a} {ops[type(e.ops[0])]} {b}))", BOOL
        if isinstance(e, ast.BoolOp):
            is_and = isinstance(e.op, ast.And)
            acc, ta = self.expr(e.values[0], lines, in_branch)
            if ta != BOOL:
                self.fail(e, f"boolean operator on {ta}")
            for v in e.values[1:]:
                sub = []
                b, tb = self.expr(v, sub, True)
                if tb != BOOL:
                    self.fail(e, f"boolean operator on {tb}")
                if not sub:
                    acc = f"({acc} && {b})" if is_and else f"({acc} || {b})"
                else:
                    t = self.fresh()
                    if is_and:
                        lines.append(f"let {t} ← (if {acc} then (do")
                        lines.extend(self.ind(sub, 4))
                        lines.append(f"    pure {b}) else pure false)")
                    else:
                        lines.append(f"let {t} ← (if {acc} then pure true else (do")
                        lines.extend(self.ind(sub, 4))
                        lines.append(f"    pure {b}))")
                    acc = t
            return acc, BOOL
        if isinstance(e, ast.Call):
            f = e.func
            fs = ast.unparse(f)
            if fs in ("np.maximum", "np.minimum") and len(e.args) == 2 and not e.keywords:
                a, ta = self.expr(e.args[0], lines, in_branch)
                b, tb = self.expr(e.args[1], lines, in_branch)
                if ta == FLOAT and tb == INT:
                    b, tb = self.as_float(b, tb, e, e.args[1]), FLOAT
                if tb == FLOAT and ta == INT:
                    a, ta = self.as_float(a, ta, e, e.args[0]), FLOAT
                if ta != FLOAT or tb != FLOAT:
                    self.fail(e, f"{fs} on {ta}, {tb}")
                return f"({'max' if fs == 'np.maximum' else 'min'} {a} {b})", FLOAT
            if fs == "np.exp" and len(e.args) == 1 and not e.keywords:
                a, ta = self.expr(e.args[0], lines, in_branch)
                if ta != FLOAT:
                    self.fail(e, f"np.exp of {ta}")
                self.uses.add("fo")
                return f"(fo.exp {a})", FLOAT
            if fs == "int" and len(e.args) == 1 and not e.keywords:
                a, ta = self.expr(e.args[0], lines, in_branch)
                return self.as_int(a, ta, e), INT
            if fs == "Heap":
                fn = self.heap.init
                params = [a.arg for a in fn.args.args[1:]]
                defaults = dict(zip(params[len(params) - len(fn.args.defaults):], fn.args.defaults))
                given = dict(zip(params, e.args))
                for k in e.keywords:
                    if k.arg not in params or k.arg in given:
                        self.fail(e, f"Heap(… {k.arg}= …)")
                    given[k.arg] = k.value
                args = []
                for p_ in params:
                    src = given.get(p_, defaults.get(p_))
                    if src is None:
                        self.fail(e, f"Heap() without {p_}")
                    if isinstance(src, ast.Constant) and isinstance(src.value, str):
                        args.append('"' + src.value + '"')
                    else:
                        a, ta = self.expr(src, lines, in_branch)
                        args.append(self.as_int(a, ta, e))
                t = self.fresh()
                lines.append(f"let {t} ← HeapImp.Obj.init {' '.join(args)} FLOAT_MAX")
                self.uses.add("FLOAT_MAX")
                return t, HEAP
            if isinstance(f, ast.Attribute) and isinstance(f.value, ast.Name) and env.get(f.value.id) == HEAP \
                    and f.attr in self.heap.methods and not e.keywords:
                hname, m = f.value.id, f.attr
                params = self.heap.methods[m].args.args[1:]
                if len(params) != len(e.args):
                    self.fail(e, f"call of Heap.{m}")
                args = []
                for a_, p_ in zip(e.args, params):
                    a, ta = self.expr(a_, lines, in_branch)
                    want = self.heap.ann(p_.annotation, p_)
                    if want == INT:
                        a = self.as_int(a, ta, e)
                    elif want != ta:
                        self.fail(e, f"argument of type {ta} for {p_.arg}")
                    args.append(a)
                t = self.fresh()
                argstr = "".join(" " + a for a in args)
                if m in self.heap.impure:
                    if in_branch:
                        self.fail(e, "state-changing call inside a short-circuit operand")
                    lines.append(f"let ({hname}, {t}) ← HeapImp.Obj.{m} {hname}{argstr}")
                else:
                    lines.append(f"let {t} ← HeapImp.Obj.{m} {hname}{argstr}")
                return t, self.heap.ret[m]
            self.fail(e, f"call {fs}")
        self.fail(e, f"expression {type(e).__name__}")

    # ---------------------------------------------------------------- statements
    def is_ghost(self, s):
        if isinstance(s, ast.Expr) and isinstance(s.value, ast.Call):
            f = s.value.func
            root = f
            while isinstance(root, ast.Attribute):
                root = root.value
            if isinstance(root, ast.Name) and root.id == "logger":
                return True
        if isinstance(s, ast.Assign) and len(s.targets) == 1 and isinstance(s.targets[0], ast.Name):
            v = s.value
            if isinstance(v, ast.Call) and ast.unparse(v.func) == "time.time":
                self.ghost.add(s.targets[0].id)
                return True
            names = [n.id for n in ast.walk(v) if isinstance(n, ast.Name)]
            if names and all(n in self.ghost for n in names):
                self.ghost.add(s.targets[0].id)
                return True
        return False

    def weight_pattern(self, s):
        """the two-branch arc-weight lookup -> (target expr, kind, a, b) or None."""
        if not (isinstance(s, ast.If) and ast.unparse(s.test) in ("self.pre_computed_distance", "pre_computed_distance")):
            return None
        if not (len(s.body) == 1 and len(s.orelse) == 1 and isinstance(s.body[0], ast.Assign)
                and isinstance(s.orelse[0], ast.Assign)):
            self.fail(s, "arc-weight lookup is not a pair of single assignments")
        a1, a2 = s.body[0], s.orelse[0]
        if not (len(a1.targets) == 1 and len(a2.targets) == 1 and isinstance(a1.targets[0], (ast.Name, ast.Subscript))
                and ast.unparse(a1.targets[0]) == ast.unparse(a2.targets[0])):
            self.fail(s, "arc-weight lookup assigns different targets")
        v1, v2 = a1.value, a2.value
        ok1 = (isinstance(v1, ast.Subscript) and isinstance(v1.value, ast.Subscript)
               and ast.unparse(v1.value.value) in ("self.pre_distances", "pre_distances")
               and isinstance(v1.value.slice, ast.Attribute) and v1.value.slice.attr == "idx"
               and isinstance(v1.slice, ast.Attribute) and v1.slice.attr == "idx")
        ok2 = (isinstance(v2, ast.Call) and ast.unparse(v2.func) in ("self.distance_fn", "distance_function") and len(v2.args) == 2
               and not v2.keywords and all(isinstance(a, ast.Attribute) and a.attr == "features" for a in v2.args))
        if not (ok1 and ok2):
            self.fail(s, "arc-weight lookup has an unexpected shape")
        A1, B1 = v1.value.slice.value, v1.slice.value
        A2, B2 = v2.args[0].value, v2.args[1].value
        if ast.unparse(A1) != ast.unparse(A2) or ast.unparse(B1) != ast.unparse(B2):
            self.fail(s, "the pre-computed branch and the metric branch name different nodes "
                         f"({ast.unparse(A1)}, {ast.unparse(B1)}) vs ({ast.unparse(A2)}, {ast.unparse(B2)})")
        ra, rb = self.node_ref(A1), self.node_ref(B1)
        if not (ra and rb):
            self.fail(s, "arc-weight lookup on something other than subgraph nodes")
        if ra[0] == "sg":
            kind = "W" if rb[0] == "sg" else "WQ"
        elif rb[0] == "sg":
            kind = "QW"        # d(query, training): the query comes FIRST
        else:
            self.fail(s, "arc-weight lookup between two non-training nodes")
        return a1.targets[0], kind, ra[1], rb[1]

    def assigned(self, stmts):
        out = []

        def add(x):
            if x not in out:
                out.append(x)

        def root_of(t):
            r = t
            while isinstance(r, (ast.Subscript, ast.Attribute)):
                if self.sg_of(r):
                    return self.sg_of(r)
                r = r.value
            if isinstance(r, ast.Name):
                if r.id == "self" and self.cls in ("Subgraph", "KNNSubgraph"):
                    return "sg"
                return r.id
            return None
        for s in stmts:
            for n in ast.walk(s):
                tg = []
                if isinstance(n, ast.Assign):
                    tg = n.targets
                elif isinstance(n, ast.AugAssign):
                    tg = [n.target]
                elif isinstance(n, ast.For):
                    tg = [n.target]
                for t in tg:
                    for u in (t.elts if isinstance(t, ast.Tuple) else [t]):
                        r = root_of(u)
                        if r:
                            add(r)
                if isinstance(n, ast.Call) and isinstance(n.func, ast.Attribute):
                    f = n.func
                    if isinstance(f.value, ast.Name) and self.env_all.get(f.value.id) == HEAP \
                            and f.attr in self.heap.impure:
                        add(f.value.id)
                    if f.attr in ("append", "insert", "fill"):
                        r = root_of(f.value)
                        if r:
                            add(r)
                    if f.attr in ("mark_nodes", "_find_prototypes"):
                        add("sg")
        return [x for x in out if x not in self.ghost]

    def tuple_of(self, names):
        return names[0] if len(names) == 1 else "(" + ", ".join(names) + ")"

    def lty(self, t):
        if isinstance(t, str) and t.startswith("tuple:"):
            return "(" + " × ".join(self.lty(x) for x in t[6:].split(",")) + ")"
        return self.struct if t == SGT else LEAN_TY2[t]

    def sigma(self, names):
        return " × ".join(self.lty(self.env[n]) for n in names)

    def store(self, target, val, tv, lines, node):
        env = self.env
        if isinstance(target, ast.Name):
            if tv == INT_OR_BOOL:
                val, tv = f"(Py.asInt {val})", INT
            if target.id in env and env[target.id] != tv:
                self.fail(node, f"variable {target.id} changes type from {env[target.id]} to {tv}")
            lines.append(f"let {target.id} := {val}")
            env[target.id] = tv
            self.env_all[target.id] = tv
            return
        if isinstance(target, ast.Attribute):
            nr = self.node_ref(target.value)
            if nr:
                s, ie = nr
                ft = self.field(target.attr, node)
                if ft == INT:
                    val = self.as_int(val, tv, node)
                elif ft == FLOAT:
                    val = self.as_float(val, tv, node, getattr(node, "value", None))
                elif tv != ft:
                    self.fail(node, f"store of {tv} into node field {target.attr} of type {ft}")
                i, ti = self.expr(ie, lines)
                i = self.as_int(i, ti, node)
                for g in self.nodes.guard(target.attr, val):
                    lines.append(f"let _g ← (if {g} then none else pure ())")
                t = self.fresh()
                lines.append(f"let {t} ← Py.setIdx {s}.{target.attr} {i} {val}")
                lines.append(f"let {s} := {{ {s} with {target.attr} := {t} }}")
                return
            s = self.sg_of(target.value)
            if s and self.sg_props is not None and self.sg_props.types.get(target.attr) == FLOAT:
                val = self.as_float(val, tv, node, getattr(node, "value", None))
                if target.attr not in self.used_sg_fields:
                    self.used_sg_fields.append(target.attr)
                lines.append(f"let {s} := {{ {s} with {self.sgf(target.attr)} := {val} }}")
                return
            if s and self.sg_props is not None and self.sg_props.types.get(target.attr) == INT:
                val = self.as_int(val, tv, node)
                if target.attr not in self.used_sg_fields:
                    self.used_sg_fields.append(target.attr)
                for g in self.sg_props.guard(target.attr, val):
                    lines.append(f"let _g ← (if {g} then none else pure ())")
                lines.append(f"let {s} := {{ {s} with {target.attr} := {val} }}")
                return
            if s and target.attr == "trained" and tv == BOOL:
                lines.append(f"let {s} := {{ {s} with trained := {val} }}")
                return
            if isinstance(target.value, ast.Name) and target.value.id == "self" and target.attr == "subgraph":
                self.fail(node, "assignment to self.subgraph other than Subgraph(…)")
            self.fail(node, f"store to {ast.unparse(target)}")
        if isinstance(target, ast.Subscript) and isinstance(target.value, ast.Name) \
                and env.get(target.value.id) in (LINT, LFLOAT):
            nm = target.value.id
            if env[nm] == LINT:
                val = self.as_int(val, tv, node)
            else:
                val = self.as_float(val, tv, node, getattr(node, "value", None))
            i, ti = self.expr(target.slice, lines)
            t = self.fresh()
            lines.append(f"let {t} ← Py.setIdx {nm} {self.as_int(i, ti, node)} {val}")
            lines.append(f"let {nm} := {t}")
            return
        if isinstance(target, ast.Subscript):
            v = target.value
            if isinstance(v, ast.Attribute) and isinstance(v.value, ast.Name) and env.get(v.value.id) == HEAP \
                    and self.heap.fields.get(v.attr) in (LINT, LFLOAT):
                want = INT if self.heap.fields[v.attr] == LINT else FLOAT
                if want == FLOAT and tv == INT:
                    pass  # `h.cost[i] = 0`: the int literal is the cost 0 (encoded 0)
                elif tv != want:
                    self.fail(node, f"store of {tv} into Heap.{v.attr}")
                i, ti = self.expr(target.slice, lines)
                t = self.fresh()
                hn = v.value.id
                lines.append(f"let {t} ← Py.setIdx {hn}.{v.attr} {self.as_int(i, ti, node)} {val}")
                lines.append(f"let {hn} := {{ {hn} with {v.attr} := {t} }}")
                return
        self.fail(node, f"assignment target {ast.unparse(target)}")

    def block(self, stmts, tail):
        env = self.env
        lines = []
        stmts = [s for s in stmts if not Imp.is_doc(s)]
        for k, s in enumerate(stmts):
            if isinstance(s, ast.Pass) or self.is_ghost(s):
                continue
            if isinstance(s, ast.Return):
                if tail[0] != "fn" or k != len(stmts) - 1 or s.value is None:
                    self.fail(s, "return other than a final `return <value>`")
                if isinstance(s.value, ast.Tuple):
                    parts = [self.expr(x, lines) for x in s.value.elts]
                    self.ret_val = "(" + ", ".join(v for v, _ in parts) + ")"
                    self.ret_ty = "tuple:" + ",".join(t for _, t in parts)
                    continue
                v, tv = self.expr(s.value, lines)
                self.ret_val, self.ret_ty = v, tv
                continue
            if isinstance(s, ast.If) and not s.orelse and len(s.body) == 1 and isinstance(s.body[0], ast.Raise):
                # `if cond: raise …`
                t = s.test
                if isinstance(t, ast.UnaryOp) and isinstance(t.op, ast.Not) and self.sg_of(t.operand) == "sg" \
                        and not isinstance(t.operand, ast.Name):
                    if self.subgraph_has_truth:
                        self.fail(s, "truth value of a Subgraph that defines __bool__/__len__")
                    continue   # an object without __bool__/__len__ is true: the guard never fires
                c, tc = self.expr(t, lines)
                if tc != BOOL:
                    self.fail(s, f"condition of type {tc}")
                lines.append(f"let _g ← (if {c} then none else pure ())")
                continue
            wp = self.weight_pattern(s) if isinstance(s, ast.If) else None
            if wp:
                tgt, kind, ea, eb = wp
                a, ta = self.expr(ea, lines)
                b, tb = self.expr(eb, lines)
                self.uses.add(kind)
                if isinstance(tgt, ast.Name):
                    lines.append(f"let {tgt.id} ← {kind} {self.as_int(a, ta, s)} {self.as_int(b, tb, s)}")
                    env[tgt.id] = FLOAT
                    self.env_all[tgt.id] = FLOAT
                else:
                    t = self.fresh()
                    lines.append(f"let {t} ← {kind} {self.as_int(a, ta, s)} {self.as_int(b, tb, s)}")
                    self.store(tgt, t, FLOAT, lines, s)
                continue
            if isinstance(s, ast.Expr) and isinstance(s.value, ast.Call):
                f = s.value.func
                fs = ast.unparse(f)
                if isinstance(f, ast.Attribute) and f.attr == "append" and len(s.value.args) == 1:
                    a, ta = self.expr(s.value.args[0], lines)
                    a = self.as_int(a, ta, s)
                    if isinstance(f.value, ast.Name) and env.get(f.value.id) == LINT:
                        lines.append(f"let {f.value.id} := {f.value.id}.push {a}")
                        continue
                    if isinstance(f.value, ast.Attribute) and f.value.attr == "idx_nodes" and self.sg_of(f.value.value):
                        sgn = self.sg_of(f.value.value)
                        lines.append(f"let {sgn} := {{ {sgn} with idx_nodes := {sgn}.idx_nodes.push {a} }}")
                        continue
                    self.fail(s, f"append to {ast.unparse(f.value)}")
                if (isinstance(f, ast.Attribute) and f.attr == "insert" and len(s.value.args) == 2
                        and isinstance(f.value, ast.Attribute) and self.node_ref(f.value.value)
                        and self.nodes.types.get(f.value.attr) == LINT
                        and isinstance(s.value.args[0], ast.Constant) and s.value.args[0].value == 0):
                    sgn, ie = self.node_ref(f.value.value)
                    fld = f.value.attr
                    self.field(fld, s)
                    i, ti = self.expr(ie, lines)
                    v, tv = self.expr(s.value.args[1], lines)
                    a, t = self.fresh(), self.fresh()
                    lines.append(f"let {a} ← Py.idx {sgn}.{fld} {self.as_int(i, ti, s)}")
                    lines.append(f"let {t} ← Py.setIdx {sgn}.{fld} {self.as_int(i, ti, s)} (#[{self.as_int(v, tv, s)}] ++ {a})")
                    lines.append(f"let {sgn} := {{ {sgn} with {fld} := {t} }}")
                    continue
                if isinstance(f, ast.Attribute) and f.attr == "fill" and isinstance(f.value, ast.Name) \
                        and env.get(f.value.id) == LFLOAT and len(s.value.args) == 1:
                    a, ta = self.expr(s.value.args[0], lines)
                    a = self.as_float(a, ta, s, s.value.args[0])
                    lines.append(f"let {f.value.id} : Array Int := Array.replicate {f.value.id}.size {a}")
                    continue
                if fs == "self._find_prototypes" and not s.value.args:
                    lines.append("let (sg, _) ← find_prototypes W FLOAT_MAX sg")
                    self.uses.add("W")
                    self.uses.add("FLOAT_MAX")
                    continue
                if isinstance(f, ast.Attribute) and f.attr == "mark_nodes" and self.sg_of(f.value) and len(s.value.args) == 1:
                    a, ta = self.expr(s.value.args[0], lines)
                    sgn = self.sg_of(f.value)
                    lines.append(f"let ({sgn}, _) ← mark_nodes {sgn} {self.as_int(a, ta, s)}")
                    continue
                self.expr(s.value, lines)
                continue
            if isinstance(s, ast.Assign):
                if len(s.targets) != 1:
                    self.fail(s, "chained assignment")
                if isinstance(s.targets[0], ast.Tuple):
                    tgt = s.targets[0]
                    if not (isinstance(s.value, ast.Tuple) and len(s.value.elts) == len(tgt.elts)):
                        self.fail(s, "tuple assignment from a non-tuple")
                    vals = []
                    for ve in s.value.elts:
                        v, tv = self.expr(ve, lines)
                        t = self.fresh()
                        lines.append(f"let {t} := {v}")
                        vals.append((t, tv))
                    for u, (v, tv) in zip(tgt.elts, vals):
                        self.store(u, v, tv, lines, s)
                    continue
                tg = s.targets[0]
                if isinstance(tg, ast.Attribute) and ast.unparse(tg) == "self.subgraph":
                    if isinstance(s.value, ast.Call) and ast.unparse(s.value.func) == "Subgraph":
                        lines.append("let sg := sg0")
                        self.uses.add("sg0")
                        continue
                    self.fail(s, "assignment to self.subgraph other than Subgraph(…)")
                if (isinstance(tg, ast.Attribute) and self.node_ref(tg.value) and self.nodes.types.get(tg.attr) == LINT
                        and isinstance(s.value, ast.List) and not s.value.elts):
                    sgn, ie = self.node_ref(tg.value)
                    self.field(tg.attr, s)
                    i, ti = self.expr(ie, lines)
                    t = self.fresh()
                    lines.append(f"let {t} ← Py.setIdx {sgn}.{tg.attr} {self.as_int(i, ti, s)} (#[] : Array Int)")
                    lines.append(f"let {sgn} := {{ {sgn} with {tg.attr} := {t} }}")
                    continue
                if isinstance(tg, ast.Name) and isinstance(s.value, ast.Call) and ast.unparse(s.value.func) in ("Subgraph", "KNNSubgraph"):
                    nm = tg.id + "0"
                    lines.append(f"let {tg.id} := {nm}")
                    env[tg.id] = SGT
                    self.env_all[tg.id] = SGT
                    self.extra_sg.append(nm)
                    continue
                if isinstance(tg, ast.Name) and isinstance(s.value, ast.ListComp):
                    lc = s.value
                    g = lc.generators[0] if len(lc.generators) == 1 else None
                    if (g and not g.ifs and isinstance(g.target, ast.Name) and isinstance(g.iter, ast.Attribute)
                            and g.iter.attr == "nodes" and self.sg_of(g.iter.value)
                            and isinstance(lc.elt, ast.Attribute) and isinstance(lc.elt.value, ast.Name)
                            and lc.elt.value.id == g.target.id):
                        ft = self.field(lc.elt.attr, s)
                        if ft != INT:
                            self.fail(s, "comprehension over a non-int node field")
                        lines.append(f"let {tg.id} := {self.sg_of(g.iter.value)}.{lc.elt.attr}")
                        env[tg.id] = LINT
                        self.env_all[tg.id] = LINT
                        continue
                    self.fail(s, "list comprehension")
                if (isinstance(tg, ast.Name) and isinstance(s.value, ast.Call) and ast.unparse(s.value.func) == "np.zeros"
                        and len(s.value.args) == 1 and not s.value.keywords):
                    ty_ = self.local_arrays.get(tg.id)
                    if ty_ not in (LINT, LFLOAT):
                        self.fail(s, f"np.zeros bound to {tg.id}: element type not declared to the translator")
                    a, ta = self.expr(s.value.args[0], lines)
                    lines.append(f"let {tg.id} : Array Int := Py.replicate {self.as_int(a, ta, s)} (0 : Int)")
                    env[tg.id] = ty_
                    self.env_all[tg.id] = ty_
                    continue
                if isinstance(s.value, ast.List) and not s.value.elts and isinstance(tg, ast.Name):
                    lines.append(f"let {tg.id} : Array Int := #[]")
                    env[tg.id] = LINT
                    self.env_all[tg.id] = LINT
                    continue
                v, tv = self.expr(s.value, lines)
                self.store(tg, v, tv, lines, s)
                continue
            if isinstance(s, ast.AugAssign) and isinstance(s.target, ast.Attribute) and self.node_ref(s.target.value):
                ops = {ast.Add: "+", ast.Sub: "-", ast.Mult: "*"}
                if type(s.op) not in ops or self.nodes.types.get(s.target.attr) != INT:
                    self.fail(s, "augmented assignment to a node field")
                load = ast.parse(ast.unparse(s.target), mode="eval").body
                for n_ in ast.walk(load):
                    ast.copy_location(n_, s)
                a, ta = self.expr(load, lines)
                b, tb = self.expr(s.value, lines)
                self.store(s.target, f"({a} {ops[type(s.op)]} {self.as_int(b, tb, s)})", INT, lines, s)
                continue
            if isinstance(s, ast.AugAssign) and (
                    (isinstance(s.target, ast.Name) and env.get(s.target.id) == FLOAT)
                    or (isinstance(s.target, ast.Subscript) and isinstance(s.target.value, ast.Name)
                        and env.get(s.target.value.id) == LFLOAT)):
                # x op= e on a float  ==  x = x op e
                load = ast.parse(ast.unparse(s.target), mode="eval").body
                bin_ = ast.BinOp(left=load, op=s.op, right=s.value)
                for n_ in ast.walk(bin_):
                    ast.copy_location(n_, s)
                v, tv = self.expr(bin_, lines)
                self.store(s.target, v, tv, lines, s)
                continue
            if isinstance(s, ast.AugAssign) and isinstance(s.target, ast.Name):
                ops = {ast.Add: "+", ast.Sub: "-", ast.Mult: "*"}
                if type(s.op) not in ops or env.get(s.target.id) != INT:
                    self.fail(s, "augmented assignment")
                b, tb = self.expr(s.value, lines)
                lines.append(f"let {s.target.id} := ({s.target.id} {ops[type(s.op)]} {self.as_int(b, tb, s)})")
                continue
            if isinstance(s, ast.If):
                if Imp.has_exit(s.body) or Imp.has_exit(s.orelse):
                    self.fail(s, "return/raise/break inside a branch")
                c, tc = self.expr(s.test, lines)
                if tc != BOOL:
                    self.fail(s, f"condition of type {tc}")
                w = self.assigned(s.body + s.orelse)
                saved = dict(env)
                self.env = dict(saved)
                a = self.block(s.body, ("yield",))
                ea = self.env
                self.env = dict(saved)
                b = self.block(s.orelse, ("yield",))
                eb = self.env
                self.env = env = saved
                keep = [x for x in w if x in ea and x in eb and ea[x] == eb[x]]
                for x in keep:
                    env[x] = ea[x]
                pat = self.tuple_of(keep) if keep else "_u"
                val = self.tuple_of(keep) if keep else "()"
                lines.append(f"let {pat} ← (if {c} then (do")
                lines.extend(self.ind(a + [f"pure {val}"], 4))
                lines[-1] += ") else (do"
                lines.extend(self.ind(b + [f"pure {val}"], 4))
                lines[-1] += "))"
                continue
            if isinstance(s, ast.While):
                if s.orelse or Imp.has_exit(s.body):
                    self.fail(s, "while with else/break/continue/return")
                w = [x for x in self.assigned(s.body) if x in env]
                if not w:
                    self.fail(s, "while loop that assigns nothing")
                pat = self.tuple_of(w)
                saved = dict(env)
                cl = []
                c, tc = self.expr(s.test, cl, True)
                if tc != BOOL:
                    self.fail(s, f"condition of type {tc}")
                self.env = dict(saved)
                bl = self.block(s.body, ("yield",))
                for x in w:
                    if self.env[x] != saved[x]:
                        self.fail(s, f"loop variable {x} changes type")
                self.env = env = saved
                lines.append(f"let {pat} ← Py.whileM (σ := {self.sigma(w)})")
                lines.append(f"  (fun {pat} => (do")
                lines.extend(self.ind(cl + [f"pure {c}))"], 4))
                lines.append(f"  (fun {pat} => (do")
                lines.extend(self.ind(bl + [f"pure {pat}))"], 4))
                lines.append(f"  {pat}")
                continue
            if isinstance(s, ast.For) and isinstance(s.iter, ast.Call) and ast.unparse(s.iter.func) == "enumerate":
                # for i, x in enumerate(X): node = Node(a, b, x); <subgraph>.nodes.append(node)
                body = [b_ for b_ in s.body if not Imp.is_doc(b_)]
                ok = (isinstance(s.target, ast.Tuple) and len(s.target.elts) == 2
                      and all(isinstance(u, ast.Name) for u in s.target.elts)
                      and len(s.iter.args) == 1 and isinstance(s.iter.args[0], ast.Name) and not s.orelse
                      and len(body) == 2 and isinstance(body[0], ast.Assign) and isinstance(body[0].targets[0], ast.Name)
                      and isinstance(body[0].value, ast.Call) and ast.unparse(body[0].value.func) == "Node"
                      and not body[0].value.keywords
                      and isinstance(body[1], ast.Expr) and isinstance(body[1].value, ast.Call)
                      and isinstance(body[1].value.func, ast.Attribute) and body[1].value.func.attr == "append"
                      and isinstance(body[1].value.func.value, ast.Attribute) and body[1].value.func.value.attr == "nodes"
                      and self.sg_of(body[1].value.func.value.value)
                      and len(body[1].value.args) == 1 and isinstance(body[1].value.args[0], ast.Name)
                      and body[1].value.args[0].id == body[0].targets[0].id)
                if not ok:
                    self.fail(s, "enumerate loop other than `node = Node(…); <subgraph>.nodes.append(node)`")
                iv, xv = s.target.elts[0].id, s.target.elts[1].id
                coll = s.iter.args[0].id
                sgn = self.sg_of(body[1].value.func.value.value)
                nargs = body[0].value.args
                if len(nargs) > len(self.nodes.init_params):
                    self.fail(s, "Node(…) with too many arguments")
                lp = f"len_{coll}"
                if lp not in self.len_params:
                    self.len_params.append(lp)
                saved = dict(env)
                self.env = dict(saved)
                self.env[iv] = INT
                self.env_all[iv] = INT
                bl = []
                args = {}
                for pn, ae in zip(self.nodes.init_params, nargs):
                    if isinstance(ae, ast.Name) and ae.id == xv:
                        continue    # the feature vector: abstracted by the weight oracle
                    a, ta = self.expr(ae, bl)
                    args[pn] = self.as_int(a, ta, s)
                for f_ in self.used_fields:
                    d = self.nodes.default(f_, args)
                    for g in self.nodes.guard(f_, d):
                        bl.append(f"let _g ← (if {g} then none else pure ())")
                    bl.append(f"let {sgn} := {{ {sgn} with {f_} := {sgn}.{f_}.push {d} }}")
                bl.append(f"let {sgn} := {{ {sgn} with n_nodes := {sgn}.n_nodes + 1 }}")
                self.env = env = saved
                lines.append(f"let {sgn} ← Py.forRange (σ := {self.struct}) {lp}")
                lines.append(f"  (fun {iv} {sgn} => (do")
                lines.extend(self.ind(bl + [f"pure {sgn}))"], 4))
                lines.append(f"  {sgn}")
                continue
            if (isinstance(s, ast.For) and isinstance(s.iter, ast.Attribute) and self.node_ref(s.iter.value)
                    and self.nodes.types.get(s.iter.attr) == LINT):
                # `for v in <node>.adjacency:` — CPython's list iterator: an index into the list object,
                # compared with its CURRENT length before every step
                if not isinstance(s.target, ast.Name) or s.orelse or Imp.has_exit(s.body):
                    self.fail(s, "for-in-list with else/break/continue/return or a tuple target")
                sgn, ie = self.node_ref(s.iter.value)
                fld = s.iter.attr
                self.field(fld, s)
                i, ti = self.expr(ie, lines)
                pos = self.fresh()
                it_ = self.fresh()
                lines.append(f"let {pos} := {self.as_int(i, ti, s)}")
                v = s.target.id
                w = [x for x in self.assigned(s.body) if x in env and x != v]
                saved = dict(env)
                self.env = dict(saved)
                self.env[v] = INT
                self.env_all[v] = INT
                self.env[pos] = INT
                bl = self.block(s.body, ("yield",))
                for x in w:
                    if self.env[x] != saved[x]:
                        self.fail(s, f"loop variable {x} changes type")
                self.env = env = saved
                env.pop(v, None)
                pat = self.tuple_of(w + [it_])
                sig = " × ".join([self.lty(env[n]) for n in w] + ["Int"])
                a1, a2 = self.fresh(), self.fresh()
                lines.append(f"let {pat} ← Py.whileM (σ := {sig})")
                lines.append(f"  (fun {pat} => (do")
                lines.extend(self.ind([f"let {a1} ← Py.idx {sgn}.{fld} {pos}",
                                       f"pure (decide ({it_} < ({a1}.size : Int)))))"], 4))
                lines.append(f"  (fun {pat} => (do")
                lines.extend(self.ind([f"let {a2} ← Py.idx {sgn}.{fld} {pos}",
                                       f"let {v} ← Py.idx {a2} {it_}",
                                       f"let {it_} := {it_} + 1"] + bl + [f"pure {pat}))"], 4))
                lines.append(f"  {self.tuple_of(w + ['(0 : Int)'])}")
                continue
            if (isinstance(s, ast.For) and isinstance(s.iter, ast.Call) and ast.unparse(s.iter.func) == "range"
                    and len(s.iter.args) == 3 and ast.unparse(s.iter.args[2]) == "-1" and isinstance(s.target, ast.Name)
                    and not s.orelse and not Imp.has_exit(s.body)):
                # for v in range(start, stop, -1)
                a0, t0 = self.expr(s.iter.args[0], lines)
                a1_, t1 = self.expr(s.iter.args[1], lines)
                v = s.target.id
                w = [x for x in self.assigned(s.body) if x in env and x != v]
                if not w:
                    self.fail(s, "for loop that assigns nothing")
                pat = self.tuple_of(w)
                saved = dict(env)
                self.env = dict(saved)
                self.env[v] = INT
                self.env_all[v] = INT
                bl = self.block(s.body, ("yield",))
                for x in w:
                    if self.env[x] != saved[x]:
                        self.fail(s, f"loop variable {x} changes type")
                self.env = env = saved
                env.pop(v, None)
                lines.append(f"let {pat} ← Py.forDown (σ := {self.sigma(w)}) {self.as_int(a0, t0, s)} {self.as_int(a1_, t1, s)}")
                lines.append(f"  (fun {v} {pat} => (do")
                lines.extend(self.ind(bl + [f"pure {pat}))"], 4))
                lines.append(f"  {pat}")
                continue
            if isinstance(s, ast.For):
                it = s.iter
                if not (isinstance(s.target, ast.Name) and isinstance(it, ast.Call) and ast.unparse(it.func) == "range"
                        and len(it.args) == 1 and not s.orelse) or Imp.has_exit(s.body):
                    self.fail(s, "for loop other than `for v in range(e)` without break/continue/return")
                n, tn = self.expr(it.args[0], lines)
                v = s.target.id
                w = [x for x in self.assigned(s.body) if x in env and x != v]
                if not w:
                    self.fail(s, "for loop that assigns nothing")
                pat = self.tuple_of(w)
                saved = dict(env)
                self.env = dict(saved)
                self.env[v] = INT
                self.env_all[v] = INT
                bl = self.block(s.body, ("yield",))
                for x in w:
                    if self.env[x] != saved[x]:
                        self.fail(s, f"loop variable {x} changes type")
                self.env = env = saved
                env.pop(v, None)
                lines.append(f"let {pat} ← Py.forRange (σ := {self.sigma(w)}) {self.as_int(n, tn, s)}")
                lines.append(f"  (fun {v} {pat} => (do")
                lines.extend(self.ind(bl + [f"pure {pat}))"], 4))
                lines.append(f"  {pat}")
                continue
            self.fail(s, f"statement {type(s).__name__}")
        return lines

    # ---------------------------------------------------------------- functions
    def function(self, relpath, clsname, fname, leanname, params, local_arrays=None):
        """translate one method whose state is `sg` (+ locals). `params`: extra (name, type) int parameters."""
        self.rel = relpath
        self.cls = clsname
        tree = ast.parse(open(os.path.join(self.repo, relpath)).read())
        fn = None
        for n in tree.body:
            if isinstance(n, ast.ClassDef) and n.name == clsname:
                for m in n.body:
                    if isinstance(m, ast.FunctionDef) and m.name == fname:
                        fn = m
        if fn is None:
            raise Untranslatable(f"{relpath}: {clsname}.{fname} not found")
        self.env = {"sg": SGT}
        self.env_all = {"sg": SGT}
        self.ghost = set()
        self.uses = set()
        for a in fn.args.args[1:]:
            if a.arg in params:
                self.env[a.arg] = params[a.arg]
                self.env_all[a.arg] = params[a.arg]
            elif a.arg not in ("self", "pre_computed_distance") and ast.unparse(a.annotation or ast.Constant(None)) in ("int", "bool") \
                    and any(isinstance(n, ast.Name) and n.id == a.arg for n in ast.walk(fn)):
                self.fail(fn, f"parameter {a.arg} is used but was not declared to the translator")
        # locals bound to Heap(...) are needed by `assigned` before they are reached
        for n in ast.walk(fn):
            if isinstance(n, ast.Assign) and isinstance(n.value, ast.Call) and ast.unparse(n.value.func) == "Heap" \
                    and isinstance(n.targets[0], ast.Name):
                self.env_all[n.targets[0].id] = HEAP
        for n in ast.walk(fn):
            if isinstance(n, ast.Assign) and isinstance(n.value, ast.Call) and ast.unparse(n.value.func) in ("Subgraph", "KNNSubgraph") \
                    and isinstance(n.targets[0], ast.Name):
                self.env_all[n.targets[0].id] = SGT
        self.extra_sg = []
        self.fconsts = []
        self.local_arrays = dict(local_arrays or {})
        self.ret_val, self.ret_ty = None, None
        sgt = ast.parse(open(os.path.join(self.repo, "opfython/core/subgraph.py")).read())
        self.subgraph_has_truth = any(isinstance(m, ast.FunctionDef) and m.name in ("__bool__", "__len__")
                                      for c_ in sgt.body if isinstance(c_, ast.ClassDef) and c_.name == "Subgraph"
                                      for m in c_.body)
        starts_with_sg0 = any(isinstance(n, ast.Assign) and ast.unparse(n.targets[0]) == "self.subgraph" for n in fn.body)
        if starts_with_sg0:
            del self.env["sg"]

            # `sg` becomes bound by `self.subgraph = Subgraph(…)`
            class _Bind(ast.NodeVisitor):
                pass
        body_lines = []
        # translate; `self.subgraph = Subgraph(…)` binds sg
        stmts = [s for s in fn.body if not Imp.is_doc(s)]
        out_lines = []
        pre = []
        for s in stmts:
            if "sg" not in self.env:
                if self.is_ghost(s):
                    continue
                if isinstance(s, ast.Assign) and ast.unparse(s.targets[0]) == "self.subgraph":
                    self.env["sg"] = SGT
                    pre += self.block([s], ("fn",))
                    continue
                self.fail(s, "statement before self.subgraph is bound")
            body_lines += self.block([s], ("fn",))
        rv = self.ret_val if self.ret_val is not None else "()"
        rt = self.lty(self.ret_ty) if self.ret_ty is not None else "Unit"
        lines = pre + body_lines + [f"pure (sg, {rv})"]
        sig = []
        if "W" in self.uses:
            sig.append("(W : Int → Int → Option Int)")
        if "WQ" in self.uses:
            sig.append("(WQ : Int → Int → Option Int)")
        if "QW" in self.uses:
            sig.append("(QW : Int → Int → Option Int)")
        if "fo" in self.uses:
            sig.append("(fo : Py.FOps)")
        if "FLOAT_MAX" in self.uses:
            sig.append("(FLOAT_MAX : Int)")
        for nm in self.fconsts:
            sig.append(f"({nm} : Int)")
        sig.append(f"(sg0 : {self.struct})" if "sg0" in self.uses else f"(sg : {self.struct})")
        for nm in self.extra_sg:
            sig.append(f"({nm} : {self.struct})")
        for nm in self.len_params:
            sig.append(f"({nm} : Int)")
        for a in fn.args.args[1:]:
            if a.arg in params:
                sig.append(f"({a.arg} : {self.lty(params[a.arg])})")
        out_lines.append(f"/-- `{clsname}.{fname}` ({relpath}:{fn.lineno}) -/")
        out_lines.append(f"def {leanname} {' '.join(sig)} : Option ({self.struct} × {rt}) := do")
        out_lines.extend(self.ind(lines))
        out_lines.append("")
        return out_lines


SG_FIELDS = ["pred", "relevant", "cost", "label", "status", "predicted_label"]   # the flattened Subgraph the proofs are written against


def _stub(ex):
    return ['theorem untranslatable : False := by', '  exact (show False from nomatch (⟨⟩ : Unit))  -- ' + str(ex)]


def translate_supervised(repo, gen, consts, write):
    """Gen/SupImp.lean (SG, mark_nodes, _find_prototypes), Gen/FitImp.lean (fit), Gen/PredImp.lean (predict):
    one file per obligation, so that a change confined to one method breaks only the refinement of that method."""
    errs = []

    def mk(base):
        heap = Imp(os.path.join(repo, "opfython/core/heap.py"), "Heap", consts, rel="opfython/core/heap.py")
        t = FnImp(repo, consts, heap, NodeFields(repo, consts))
        t.used_fields = list(SG_FIELDS)
        t.fixed_fields = True
        t.tmp = base
        return t

    def emit(fname, src, imports, body_fn):
        head = [f"/- GENERATED by tools/translate_fn.py from /repo/{src} — do not edit. -/"] + \
               [f"import {i}" for i in imports] + ["set_option linter.unusedVariables false",
                                                   "namespace Opf.Gen.SupImp", "open Opf Opf.Gen", ""]
        try:
            body = body_fn()
        except Untranslatable as ex:
            body = _stub(ex)
            errs.append(str(ex))
        write(os.path.join(gen, fname), "\n".join(head + body + ["end Opf.Gen.SupImp"]) + "\n")

    def sup():
        t = mk(0)
        st = ["/-- `self.subgraph`, flattened: one array per `Node` property the translated methods touch. -/",
              "structure SG where", "  n_nodes : Int", "  trained : Bool", "  idx_nodes : Array Int"]
        st += [f"  {f} : Array Int" for f in SG_FIELDS] + ["deriving Inhabited, Repr", ""]
        fns = t.function("opfython/core/subgraph.py", "Subgraph", "mark_nodes", "mark_nodes", {"i": INT})
        t.tmp = 100
        fns += t.function("opfython/models/supervised.py", "SupervisedOPF", "_find_prototypes", "find_prototypes", {})
        return st + fns
    emit("SupImp.lean", "opfython/core/subgraph.py and /repo/opfython/models/supervised.py (_find_prototypes)",
         ["OpfVerif.Gen.HeapImp"], sup)
    emit("FitImp.lean", "opfython/models/supervised.py (fit)", ["OpfVerif.Gen.SupImp"],
         lambda: mk(200).function("opfython/models/supervised.py", "SupervisedOPF", "fit", "fit", {}))
    emit("PredImp.lean", "opfython/models/supervised.py (predict)", ["OpfVerif.Gen.SupImp"],
         lambda: mk(300).function("opfython/models/supervised.py", "SupervisedOPF", "predict", "predict", {}))
    return ("; ".join(errs) if errs else None), list(SG_FIELDS)


def emit_struct(t, doc):
    st = [f"/-- {doc} -/", f"structure {t.struct} where", "  n_nodes : Int", "  trained : Bool", "  idx_nodes : Array Int"]
    for f in t.used_sg_fields:
        st.append(f"  {f} : Int")
    for f in t.used_fields:
        st.append(f"  {f} : Array (Array Int)" if t.nodes.types.get(f) == LINT else f"  {f} : Array Int")
    st += ["deriving Inhabited, Repr", ""]
    return st


def translate_cluster(repo, gen, consts, write):
    head = ["/- GENERATED by tools/translate_fn.py from /repo/opfython/models/knn_supervised.py and",
            "   /repo/opfython/models/unsupervised.py (`_clustering`) — do not edit. -/",
            "import OpfVerif.Gen.HeapImp",
            "set_option linter.unusedVariables false",
            "namespace Opf.Gen.ClusImp", "open Opf Opf.Gen", ""]
    try:
        heap = Imp(os.path.join(repo, "opfython/core/heap.py"), "Heap", consts, rel="opfython/core/heap.py")
        nodes = NodeFields(repo, consts)
        t = FnImp(repo, consts, heap, nodes)
        t.struct = "KSG"
        t.sg_props = NodeFields(repo, consts, rel="opfython/subgraphs/knn.py", clsname="KNNSubgraph")
        t.tmp = 2000
        fns = []
        fns += t.function("opfython/models/knn_supervised.py", "KNNSupervisedOPF", "_clustering", "knn_clustering",
                          {"force_prototype": BOOL})
        fns += t.function("opfython/models/unsupervised.py", "UnsupervisedOPF", "_clustering", "uns_clustering",
                          {"n_neighbours": INT})
        t.tmp = 2500
        fns += t.function("opfython/models/unsupervised.py", "UnsupervisedOPF", "propagate_labels", "propagate_labels", {})
        body = emit_struct(t, "`self.subgraph` (a `KNNSubgraph`), flattened: one array per `Node` property the translated "
                              "methods touch; `adjacency` is one list per node.") + fns
        err = None
    except Untranslatable as ex:
        body = ['theorem untranslatable : False := by', '  exact (show False from nomatch (⟨⟩ : Unit))  -- ' + str(ex)]
        err = str(ex)
    write(os.path.join(gen, "ClusImp.lean"), "\n".join(head + body + ["end Opf.Gen.ClusImp"]) + "\n")
    return err


def translate_arcs(repo, gen, consts, write):
    head = ["/- GENERATED by tools/translate_fn.py from /repo/opfython/subgraphs/knn.py (`create_arcs`) and",
            "   /repo/opfython/core/subgraph.py (`destroy_arcs`) — do not edit. -/",
            "import OpfVerif.Model.PyPrelude",
            "set_option linter.unusedVariables false",
            "namespace Opf.Gen.ArcsImp", "open Opf Opf.Gen", ""]
    try:
        heap = Imp(os.path.join(repo, "opfython/core/heap.py"), "Heap", consts, rel="opfython/core/heap.py")
        t = FnImp(repo, consts, heap, NodeFields(repo, consts))
        t.struct = "ASG"
        t.sg_props = NodeFields(repo, consts, rel="opfython/subgraphs/knn.py", clsname="KNNSubgraph")
        t.used_fields = ["adjacency", "radius", "n_plateaus"]
        t.used_sg_fields = ["density"]
        t.fixed_fields = True
        t.tmp = 3000
        fns = t.function("opfython/subgraphs/knn.py", "KNNSubgraph", "create_arcs", "create_arcs", {"k": INT},
                         local_arrays={"distances": LFLOAT, "neighbours_idx": LINT, "max_distances": LFLOAT})
        t.tmp = 3100
        fns += t.function("opfython/core/subgraph.py", "Subgraph", "destroy_arcs", "destroy_arcs", {})
        st = ["/-- a `KNNSubgraph`, flattened to what `create_arcs` touches; `density` is the subgraph-level bound. -/",
              "structure ASG where", "  n_nodes : Int", "  trained : Bool", "  idx_nodes : Array Int", "  density : Int",
              "  adjacency : Array (Array Int)", "  radius : Array Int", "  n_plateaus : Array Int", "deriving Inhabited, Repr", ""]
        body = st + fns
        err = None
    except Untranslatable as ex:
        body = _stub(ex)
        err = str(ex)
    write(os.path.join(gen, "ArcsImp.lean"), "\n".join(head + body + ["end Opf.Gen.ArcsImp"]) + "\n")
    return err


def translate_density(repo, gen, consts, write):
    """Gen/PdfImp.lean (calculate_pdf), Gen/CutImp.lean (_normalized_cut): scalar loops with float arithmetic; the
    arithmetic operations are the uninterpreted `fo : Py.FOps`."""
    errs = []

    def emit(fname, src, ns, body_fn):
        head = [f"/- GENERATED by tools/translate_fn.py from /repo/{src} — do not edit. -/",
                "import OpfVerif.Model.PyPrelude", "set_option linter.unusedVariables false",
                f"namespace Opf.Gen.{ns}", "open Opf Opf.Gen", ""]
        try:
            body = body_fn()
        except Untranslatable as ex:
            body = _stub(ex)
            errs.append(str(ex))
        write(os.path.join(gen, fname), "\n".join(head + body + [f"end Opf.Gen.{ns}"]) + "\n")

    def mk(struct, fields, sgf, base):
        heap = Imp(os.path.join(repo, "opfython/core/heap.py"), "Heap", consts, rel="opfython/core/heap.py")
        t = FnImp(repo, consts, heap, NodeFields(repo, consts))
        t.struct = struct
        t.sg_props = NodeFields(repo, consts, rel="opfython/subgraphs/knn.py", clsname="KNNSubgraph")
        t.used_fields = list(fields)
        t.used_sg_fields = list(sgf)
        t.fixed_fields = True
        t.tmp = base
        return t

    def struct_lines(t, doc):
        st = [f"/-- {doc} -/", f"structure {t.struct} where", "  n_nodes : Int", "  trained : Bool", "  idx_nodes : Array Int"]
        st += [f"  {t.sgf(f)} : Int" for f in t.used_sg_fields]
        st += [(f"  {f} : Array (Array Int)" if t.nodes.types.get(f) == LINT else f"  {f} : Array Int") for f in t.used_fields]
        return st + ["deriving Inhabited, Repr", ""]

    def pdf():
        t = mk("PSG", ["adjacency", "density", "cost"], ["density", "constant", "min_density", "max_density"], 4000)
        fns = t.function("opfython/subgraphs/knn.py", "KNNSubgraph", "calculate_pdf", "calculate_pdf", {"n_neighbours": INT},
                         local_arrays={"pdf": LFLOAT})
        t.tmp = 4100
        fns += t.function("opfython/subgraphs/knn.py", "KNNSubgraph", "eliminate_maxima_height", "eliminate_maxima_height",
                          {"height": FLOAT})
        return struct_lines(t, "a `KNNSubgraph` flattened to what `calculate_pdf` touches; NOTE the subgraph-level bound "
                               "`KNNSubgraph.density` and the per-node `Node.density` are different fields: the former is `sg_density`") + fns
    emit("PdfImp.lean", "opfython/subgraphs/knn.py (calculate_pdf)", "PdfImp", pdf)

    def cut():
        t = mk("CSG", ["adjacency", "n_plateaus", "cluster_label"], ["n_clusters"], 4200)
        fns = t.function("opfython/models/unsupervised.py", "UnsupervisedOPF", "_normalized_cut", "normalized_cut", {"n_neighbours": INT},
                         local_arrays={"internal_cluster": LFLOAT, "external_cluster": LFLOAT})
        return struct_lines(t, "the unsupervised model's subgraph flattened to what `_normalized_cut` reads") + fns
    emit("CutImp.lean", "opfython/models/unsupervised.py (_normalized_cut)", "CutImp", cut)
    return "; ".join(errs) if errs else None


def translate_knnpred(repo, gen, consts, write):
    """Gen/KnnPredImp.lean: `KNNSupervisedOPF.predict` and `UnsupervisedOPF.predict` (k-nearest scan over ALL training
    samples, query density with uninterpreted float operations, arg-max of min(cost, density))."""
    head = ["/- GENERATED by tools/translate_fn.py from /repo/opfython/models/knn_supervised.py and",
            "   /repo/opfython/models/unsupervised.py (`predict`) — do not edit. -/",
            "import OpfVerif.Model.PyPrelude", "set_option linter.unusedVariables false",
            "namespace Opf.Gen.KnnPredImp", "open Opf Opf.Gen", ""]
    try:
        heap = Imp(os.path.join(repo, "opfython/core/heap.py"), "Heap", consts, rel="opfython/core/heap.py")
        t = FnImp(repo, consts, heap, NodeFields(repo, consts))
        t.struct = "QSG"
        t.sg_props = NodeFields(repo, consts, rel="opfython/subgraphs/knn.py", clsname="KNNSubgraph")
        t.used_fields = ["cost", "predicted_label", "cluster_label"]
        t.used_sg_fields = ["best_k", "constant", "min_density", "max_density"]
        t.fixed_fields = True
        t.tmp = 5000
        la = {"distances": LFLOAT, "neighbours_idx": LINT}
        fns = t.function("opfython/models/knn_supervised.py", "KNNSupervisedOPF", "predict", "knn_predict", {}, local_arrays=la)
        t.tmp = 5200
        fns += t.function("opfython/models/unsupervised.py", "UnsupervisedOPF", "predict", "uns_predict", {}, local_arrays=la)
        st = ["/-- a `KNNSubgraph` flattened to what the two `predict` methods read (training side) and write (query side). -/",
              "structure QSG where", "  n_nodes : Int", "  trained : Bool", "  idx_nodes : Array Int"]
        st += [f"  {t.sgf(f)} : Int" for f in t.used_sg_fields]
        st += [f"  {f} : Array Int" for f in t.used_fields] + ["deriving Inhabited, Repr", ""]
        body = st + fns
        err = None
    except Untranslatable as ex:
        body = _stub(ex)
        err = str(ex)
    write(os.path.join(gen, "KnnPredImp.lean"), "\n".join(head + body + ["end Opf.Gen.KnnPredImp"]) + "\n")
    return err


def translate_semi(repo, gen, consts, write, fields):
    head = ["/- GENERATED by tools/translate_fn.py from /repo/opfython/models/semi_supervised.py — do not edit. -/",
            "import OpfVerif.Gen.SupImp",
            "set_option linter.unusedVariables false",
            "namespace Opf.Gen.SemiImp", "open Opf Opf.Gen Opf.Gen.SupImp", ""]
    try:
        heap = Imp(os.path.join(repo, "opfython/core/heap.py"), "Heap", consts, rel="opfython/core/heap.py")
        nodes = NodeFields(repo, consts)
        t = FnImp(repo, consts, heap, nodes)
        t.used_fields = list(fields)
        t.fixed_fields = True
        t.tmp = 1000
        # SemiSupervisedOPF inherits _find_prototypes from SupervisedOPF: the call resolves to SupImp.find_prototypes
        src = ast.parse(open(os.path.join(repo, "opfython/models/semi_supervised.py")).read())
        for c_ in src.body:
            if isinstance(c_, ast.ClassDef) and c_.name == "SemiSupervisedOPF":
                if [ast.unparse(b) for b in c_.bases] != ["SupervisedOPF"]:
                    raise Untranslatable("opfython/models/semi_supervised.py: SemiSupervisedOPF does not derive from SupervisedOPF")
                if any(isinstance(m, ast.FunctionDef) and m.name == "_find_prototypes" for m in c_.body):
                    raise Untranslatable("opfython/models/semi_supervised.py: _find_prototypes is overridden")
        body = t.function("opfython/models/semi_supervised.py", "SemiSupervisedOPF", "fit", "fit", {})
        err = None
    except Untranslatable as ex:
        body = ['theorem untranslatable : False := by', '  exact (show False from nomatch (⟨⟩ : Unit))  -- ' + str(ex)]
        err = str(ex)
    write(os.path.join(gen, "SemiImp.lean"), "\n".join(head + body + ["end Opf.Gen.SemiImp"]) + "\n")
    return err


if __name__ == "__main__":
    import sys
    sys.path.insert(0, os.path.dirname(os.path.abspath(__file__)))
    import translate as T
    e, fields = translate_supervised(T.REPO, T.GEN, T.read_constants(), T.write)
    e2 = translate_semi(T.REPO, T.GEN, T.read_constants(), T.write, fields)
    e3 = translate_cluster(T.REPO, T.GEN, T.read_constants(), T.write)
    for x in (e, e2, e3):
        if x:
            print("TRANSLATOR:", x)
    if e or e2 or e3:
        sys.exit(3)


def translate_build(repo, gen, consts, write):
    """Gen/BuildImp.lean: `Subgraph(X, Y, I)` (`__init__` + `_build`) as far as the flattened fields go — the state every
    translated `fit` starts from. The feature rows are abstracted (arc-weight oracle); `Node(idx, label, feature)` runs the
    guards of the `Node` setters on the values `Node.__init__` stores."""
    rel = "opfython/core/subgraph.py"
    head = [f"/- GENERATED by tools/translate_fn.py from /repo/{rel} (`__init__`, `_build`) and /repo/opfython/core/node.py — do not edit. -/",
            "import OpfVerif.Gen.SupImp", "set_option linter.unusedVariables false",
            "namespace Opf.Gen.BuildImp", "open Opf Opf.Gen Opf.Gen.SupImp", ""]
    try:
        nodes = NodeFields(repo, consts)
        tree = ast.parse(open(os.path.join(repo, rel)).read())
        cls = [n for n in tree.body if isinstance(n, ast.ClassDef) and n.name == "Subgraph"]
        if not cls:
            raise Untranslatable(f"{rel}: class Subgraph not found")
        fns = {n.name: n for n in cls[0].body if isinstance(n, ast.FunctionDef) and not n.decorator_list}
        for need in ("__init__", "_build"):
            if need not in fns:
                raise Untranslatable(f"{rel}: Subgraph.{need} not found")

        def fail(node, msg):
            raise Untranslatable(f"untranslatable construct at {rel}:{getattr(node, 'lineno', '?')}: {msg}")
        # ---- __init__: the attribute initialisations, then `_build(X, Y, I)` when X is given ----
        init = [s for s in fns["__init__"].body if not Imp.is_doc(s)]
        want_init = ["self.n_nodes = 0", "self.n_features = 0", "self.nodes = []", "self.idx_nodes = []", "self.trained = False"]
        got = [ast.unparse(s) for s in init[:len(want_init)]]
        if got != want_init:
            fail(init[0], f"Subgraph.__init__ starts with {got}, expected {want_init}")
        rest = init[len(want_init):]
        txt = [ast.unparse(s) for s in rest]
        ok = (len(rest) == 2 and txt[0] == "if from_file:\n    X, Y = self._load(from_file)"
              and isinstance(rest[1], ast.If) and ast.unparse(rest[1].test) == "X is not None"
              and [ast.unparse(s) for s in rest[1].body] == ["if Y is None:\n    Y = np.zeros(len(X), dtype=int)", "self._build(X, Y, I)"])
        if not ok:
            fail(rest[0] if rest else fns["__init__"], "Subgraph.__init__ after the attribute initialisations")
        # ---- _build ----
        body = [s for s in fns["_build"].body if not Imp.is_doc(s)]
        if len(body) != 2:
            fail(fns["_build"], "_build is not `for …: …` followed by the n_features assignment")
        loop, last = body
        if ast.unparse(last) != "self.n_features = self.nodes[0].features.shape[0]":
            fail(last, "last statement of _build")
        ok = (isinstance(loop, ast.For) and ast.unparse(loop.target) == "(i, (feature, label))"
              and ast.unparse(loop.iter) == "enumerate(zip(X, Y))" and not loop.orelse and len(loop.body) == 2
              and isinstance(loop.body[0], ast.If) and ast.unparse(loop.body[0].test) == "I is not None"
              and [ast.unparse(s) for s in loop.body[0].body] == ["node = Node(I[i].item(), label.item(), feature)"]
              and [ast.unparse(s) for s in loop.body[0].orelse] == ["node = Node(i, label.item(), feature)"]
              and ast.unparse(loop.body[1]) == "self.nodes.append(node)")
        if not ok:
            fail(loop, "the node-creation loop of _build")
        if nodes.init_params[:3] != ["idx", "label", "features"]:
            fail(fns["_build"], f"Node.__init__ parameters {nodes.init_params}")

        def pushes(idx_term):
            out = []
            args = {"idx": idx_term, "label": "label"}
            if "idx" in nodes.guards:
                for g in nodes.guard("idx", idx_term):
                    out.append(f"let _g ← (if {g} then none else pure ())")
            for f_ in SG_FIELDS:
                d = nodes.default(f_, args)
                for g in nodes.guard(f_, d):
                    out.append(f"let _g ← (if {g} then none else pure ())")
                out.append(f"let sg := {{ sg with {f_} := sg.{f_}.push {d} }}")
            out.append("let sg := { sg with n_nodes := sg.n_nodes + 1 }")
            return out
        lines = ["let sg : SG := { n_nodes := 0, trained := false, idx_nodes := #[], " +
                 ", ".join(f"{f_} := #[]" for f_ in SG_FIELDS) + " }",
                 "let sg ← Py.forRange (σ := SG) (Y.size : Int) (fun i sg => (do",
                 "    let label ← Py.idx Y i",
                 "    let sg ← (match I with",
                 "      | some I => (do",
                 "          let t1 ← Py.idx I i"]
        lines += ["          " + ln for ln in pushes("t1")] + ["          pure sg)", "      | none => (do"]
        lines += ["          " + ln for ln in pushes("i")] + ["          pure sg))", "    pure sg)) sg",
                  "let _g ← (if sg.n_nodes = 0 then none else pure ())   -- `self.nodes[0]`: IndexError on an empty subgraph",
                  "pure sg"]
        body_ = ["/-- `Subgraph(X, Y, I)` (" + rel + f":{fns['__init__'].lineno}, :{fns['_build'].lineno}): `Y` the labels (one node per label;",
                 "`zip(X, Y)` with as many rows), `I` the optional identifiers. -/",
                 "def build (Y : Array Int) (I : Option (Array Int)) : Option SG := do"] + ["  " + ln for ln in lines] + [""]
        err = None
    except Untranslatable as ex:
        body_ = _stub(ex)
        err = str(ex)
    write(os.path.join(gen, "BuildImp.lean"), "\n".join(head + body_ + ["end Opf.Gen.BuildImp"]) + "\n")
    return err
