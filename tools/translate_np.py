#!/venv/bin/python
"""Statement-level translator for the index-shuffling functions of `opfython/stream/splitter.py`
(`split`, `split_with_index`, `merge`) -> lean/OpfVerif/Gen/SplitImp.lean   (DESIGN §2.1b).

Only the AST is read.  A 2-D feature matrix is a list of opaque ROW IDENTIFIERS (the functions only move
rows around), a label / index vector is a list of ints.  Trusted reading:
  * `np.random.seed(s); idx = np.random.permutation(n)` is the oracle `PERM n` (the permutation numpy draws under
    that seed — its being a permutation of range(n) is numpy's contract, assumed by the theorems that need it);
  * `int(len(X) * percentage)` (float product truncated) is the oracle `HALT (len X)`;
  * `a[:h]`, `a[h:]` are Python slices (negative bounds and clipping included), `A[I, :]` / `a[I]` gather with
    Python indexing (negative indices wrap, out of range raises), `np.vstack((A, B))` / `np.hstack((a, b))` append;
  * `X.shape[0]` / `len(X)` is the number of rows; `raise` is `none`; `logger` statements are dropped.
Anything else raises `Untranslatable`.
"""
import ast
import os

from translate_imp import Untranslatable

ARR, INT = "arr", "int"


class NpFn:
    def __init__(self, path, rel):
        self.rel = rel
        self.tree = ast.parse(open(path).read())
        self.tmp = 0

    def fail(self, node, msg):
        raise Untranslatable(f"untranslatable construct at {self.rel}:{getattr(node, 'lineno', '?')}: {msg}")

    def fresh(self):
        self.tmp += 1
        return f"t{self.tmp}"

    def expr(self, e, env, lines):
        if isinstance(e, ast.Name):
            if e.id not in env:
                self.fail(e, f"name {e.id}")
            return e.id, env[e.id]
        if isinstance(e, ast.Constant) and isinstance(e.value, int) and not isinstance(e.value, bool):
            return f"({e.value} : Int)", INT
        if isinstance(e, ast.Subscript) and isinstance(e.value, ast.Attribute) and e.value.attr == "shape" \
                and isinstance(e.slice, ast.Constant) and e.slice.value == 0:
            a, ta = self.expr(e.value.value, env, lines)
            if ta != ARR:
                self.fail(e, "shape of a non-array")
            return f"({a}.size : Int)", INT
        if isinstance(e, ast.Call) and isinstance(e.func, ast.Name) and e.func.id == "len" and len(e.args) == 1:
            a, ta = self.expr(e.args[0], env, lines)
            return f"({a}.size : Int)", INT
        if isinstance(e, ast.Call) and ast.unparse(e.func) == "np.random.permutation" and len(e.args) == 1:
            n, tn = self.expr(e.args[0], env, lines)
            if not self.seeded:
                self.fail(e, "np.random.permutation without a preceding np.random.seed(random_state)")
            t = self.fresh()
            lines.append(f"let {t} ← PERM {n}")
            self.uses.add("PERM")
            return t, ARR
        if isinstance(e, ast.Call) and isinstance(e.func, ast.Name) and e.func.id == "int" and len(e.args) == 1:
            a0 = e.args[0]
            if isinstance(a0, ast.BinOp) and isinstance(a0.op, ast.Mult) and ast.unparse(a0.right) == "percentage":
                n, tn = self.expr(a0.left, env, lines)
                t = self.fresh()
                lines.append(f"let {t} ← HALT {n}")
                self.uses.add("HALT")
                return t, INT
            self.fail(e, "int(...) of something other than <int> * percentage")
        if isinstance(e, ast.Subscript):
            sl = e.slice
            # a[:h] / a[h:]
            if isinstance(sl, ast.Slice) and sl.step is None:
                a, ta = self.expr(e.value, env, lines)
                if ta != ARR:
                    self.fail(e, "slice of a non-array")
                if sl.lower is None and sl.upper is not None:
                    h, th = self.expr(sl.upper, env, lines)
                    return f"(Py.sliceTo {a} {h})", ARR
                if sl.upper is None and sl.lower is not None:
                    h, th = self.expr(sl.lower, env, lines)
                    return f"(Py.sliceFrom {a} {h})", ARR
                self.fail(e, "slice form")
            # A[I, :]  (rows gathered) / a[I]
            idx_e = None
            if isinstance(sl, ast.Tuple) and len(sl.elts) == 2 and isinstance(sl.elts[1], ast.Slice) \
                    and sl.elts[1].lower is None and sl.elts[1].upper is None and sl.elts[1].step is None:
                idx_e = sl.elts[0]
            elif not isinstance(sl, (ast.Tuple, ast.Slice)):
                idx_e = sl
            if idx_e is not None:
                a, ta = self.expr(e.value, env, lines)
                i, ti = self.expr(idx_e, env, lines)
                if ta != ARR or ti != ARR:
                    self.fail(e, f"indexing {ta} by {ti}")
                t = self.fresh()
                lines.append(f"let {t} ← Py.gather {a} {i}")
                return t, ARR
            self.fail(e, "subscript form")
        if isinstance(e, ast.Call) and ast.unparse(e.func) in ("np.vstack", "np.hstack") and len(e.args) == 1 \
                and isinstance(e.args[0], ast.Tuple) and len(e.args[0].elts) == 2:
            a, ta = self.expr(e.args[0].elts[0], env, lines)
            b, tb = self.expr(e.args[0].elts[1], env, lines)
            if ta != ARR or tb != ARR:
                self.fail(e, "stack of non-arrays")
            return f"({a} ++ {b})", ARR
        self.fail(e, f"expression {ast.unparse(e)[:60]}")

    def function(self, name, arr_params):
        fn = None
        for n in self.tree.body:
            if isinstance(n, ast.FunctionDef) and n.name == name:
                fn = n
        if fn is None:
            raise Untranslatable(f"{self.rel}: function {name} not found")
        env = {p: ARR for p in arr_params}
        self.seeded = False
        self.uses = set()
        lines = []
        ret = None
        for s in fn.body:
            if isinstance(s, ast.Expr) and isinstance(s.value, ast.Constant):
                continue
            if isinstance(s, ast.Expr) and isinstance(s.value, ast.Call):
                fs = ast.unparse(s.value.func)
                if fs.startswith("logger."):
                    continue
                if fs == "np.random.seed" and len(s.value.args) == 1 and ast.unparse(s.value.args[0]) == "random_state":
                    self.seeded = True
                    continue
                self.fail(s, f"call {fs}")
            if isinstance(s, ast.If) and not s.orelse and len(s.body) == 1 and isinstance(s.body[0], ast.Raise):
                t = s.test
                if isinstance(t, ast.Compare) and len(t.ops) == 1 and isinstance(t.ops[0], (ast.NotEq, ast.Eq)):
                    a, ta = self.expr(t.left, env, lines)
                    b, tb = self.expr(t.comparators[0], env, lines)
                    op = "≠" if isinstance(t.ops[0], ast.NotEq) else "="
                    lines.append(f"let _g ← (if decide ({a} {op} {b}) then none else pure ())")
                    continue
                self.fail(s, "guard form")
            if isinstance(s, ast.Assign) and len(s.targets) == 1:
                tg = s.targets[0]
                if isinstance(tg, ast.Name):
                    v, tv = self.expr(s.value, env, lines)
                    lines.append(f"let {tg.id} := {v}")
                    env[tg.id] = tv
                    continue
                if isinstance(tg, ast.Tuple) and isinstance(s.value, ast.Tuple) and len(tg.elts) == len(s.value.elts) \
                        and all(isinstance(u, ast.Name) for u in tg.elts):
                    vals = [self.expr(v, env, lines) for v in s.value.elts]
                    for u, (v, tv) in zip(tg.elts, vals):
                        lines.append(f"let {u.id} := {v}")
                        env[u.id] = tv
                    continue
                self.fail(s, "assignment form")
            if isinstance(s, ast.Return) and isinstance(s.value, ast.Tuple) and s is fn.body[-1]:
                parts = [self.expr(v, env, lines) for v in s.value.elts]
                if any(t != ARR for _, t in parts):
                    self.fail(s, "non-array return component")
                ret = "(" + ", ".join(v for v, _ in parts) + ")"
                rty = " × ".join("Array Int" for _ in parts)
                continue
            self.fail(s, f"statement {type(s).__name__}")
        if ret is None:
            self.fail(fn, "no final tuple return")
        sig = []
        if "PERM" in self.uses:
            sig.append("(PERM : Int → Option (Array Int))")
        if "HALT" in self.uses:
            sig.append("(HALT : Int → Option Int)")
        sig += [f"({p} : Array Int)" for p in arr_params]
        out = [f"/-- `{name}` ({self.rel}:{fn.lineno}) -/",
               f"def {name} {' '.join(sig)} : Option ({rty}) := do"]
        out += ["  " + ln for ln in lines] + [f"  pure {ret}", ""]
        return out


def translate_precompute(repo, gen, write):
    """`pre_compute_distance` of math/general.py: the nested loops that fill the matrix, the value written to the
    file, and the delimiter expression (as text)."""
    rel = "opfython/math/general.py"
    head = [f"/- GENERATED by tools/translate_np.py from /repo/{rel} (`pre_compute_distance`) — do not edit. -/",
            "import OpfVerif.Model.PyNumpy", "set_option linter.unusedVariables false",
            "namespace Opf.Gen.PrecompImp", "open Opf", ""]

    def fail(node, msg):
        raise Untranslatable(f"untranslatable construct at {rel}:{getattr(node, 'lineno', '?')}: {msg}")
    try:
        tree = ast.parse(open(os.path.join(repo, rel)).read())
        fn = [n for n in tree.body if isinstance(n, ast.FunctionDef) and n.name == "pre_compute_distance"]
        if not fn:
            raise Untranslatable(f"{rel}: pre_compute_distance not found")
        fn = fn[0]
        params = [a.arg for a in fn.args.args]
        if params[:3] != ["data", "output", "distance"]:
            fail(fn, f"parameters {params}")
        body = [s for s in fn.body if not (isinstance(s, ast.Expr) and isinstance(s.value, ast.Constant))
                and not (isinstance(s, ast.Expr) and isinstance(s.value, ast.Call) and ast.unparse(s.value.func).startswith("logger."))]
        lines = []
        env = {}
        delim = None
        delim_fn = None
        saved = None
        for s in body:
            if isinstance(s, ast.Assign) and len(s.targets) == 1 and isinstance(s.targets[0], ast.Name):
                nm, v = s.targets[0].id, s.value
                if ast.unparse(v) in ("data.shape[0]", "len(data)"):
                    lines.append(f"let {nm} := n_data")
                    env[nm] = "int"
                    continue
                if isinstance(v, ast.Call) and ast.unparse(v.func) == "np.zeros" and len(v.args) == 1 and isinstance(v.args[0], ast.Tuple) \
                        and len(v.args[0].elts) == 2 and all(isinstance(x, ast.Name) and env.get(x.id) == "int" for x in v.args[0].elts):
                    a, b = (x.id for x in v.args[0].elts)
                    lines.append(f"let {nm} : Array (Array Int) := Py.replicate {a} (Py.replicate {b} (0 : Int))")
                    env[nm] = "mat"
                    continue
                if nm == "delimiter":
                    delim = ast.unparse(v)
                    # `<a> if output.split('.')[-1] == '<ext>' else <b>` also as a function of the output file's extension
                    if isinstance(v, ast.IfExp) and isinstance(v.body, ast.Constant) and isinstance(v.orelse, ast.Constant) \
                            and isinstance(v.test, ast.Compare) and len(v.test.ops) == 1 and isinstance(v.test.ops[0], ast.Eq) \
                            and ast.unparse(v.test.left) == "output.split('.')[-1]" and isinstance(v.test.comparators[0], ast.Constant):
                        delim_fn = (v.test.comparators[0].value, v.body.value, v.orelse.value)
                    continue
                fail(s, f"assignment {ast.unparse(s)[:60]}")
            if isinstance(s, ast.For):
                # for i in range(A): for j in range(B): M[i][j] = d.DISTANCES[distance](data[i], data[j])
                def rng_of(f):
                    if not (isinstance(f.target, ast.Name) and isinstance(f.iter, ast.Call) and ast.unparse(f.iter.func) == "range"
                            and len(f.iter.args) == 1 and isinstance(f.iter.args[0], ast.Name) and env.get(f.iter.args[0].id) == "int"
                            and not f.orelse):
                        fail(f, "loop header")
                    return f.target.id, f.iter.args[0].id
                i, A = rng_of(s)
                if not (len(s.body) == 1 and isinstance(s.body[0], ast.For)):
                    fail(s, "outer loop body is not a single inner loop")
                inner = s.body[0]
                j, B = rng_of(inner)
                if not (len(inner.body) == 1 and isinstance(inner.body[0], ast.Assign)):
                    fail(inner, "inner loop body is not a single assignment")
                asg = inner.body[0]
                tg = asg.targets[0]
                if not (isinstance(tg, ast.Subscript) and isinstance(tg.value, ast.Subscript) and isinstance(tg.value.value, ast.Name)
                        and env.get(tg.value.value.id) == "mat" and isinstance(tg.value.slice, ast.Name) and isinstance(tg.slice, ast.Name)):
                    fail(asg, "target is not M[a][b]")
                M, r, c_ = tg.value.value.id, tg.value.slice.id, tg.slice.id
                v = asg.value
                if not (isinstance(v, ast.Call) and ast.unparse(v.func) == "d.DISTANCES[distance]" and len(v.args) == 2 and not v.keywords
                        and all(isinstance(a, ast.Subscript) and isinstance(a.value, ast.Name) and a.value.id == "data"
                                and isinstance(a.slice, ast.Name) for a in v.args)):
                    fail(asg, "value is not d.DISTANCES[distance](data[a], data[b])")
                a1, a2 = v.args[0].slice.id, v.args[1].slice.id
                if {r, c_, a1, a2} - {i, j}:
                    fail(asg, "index names")
                lines.append(f"let {M} ← Py.forRange (σ := Array (Array Int)) {A}")
                lines.append(f"  (fun {i} {M} => Py.forRange (σ := Array (Array Int)) {B}")
                lines.append(f"    (fun {j} {M} => (do")
                lines.append(f"      let t1 ← W {a1} {a2}")
                lines.append(f"      let t2 ← Py.idx {M} {r}")
                lines.append(f"      let t3 ← Py.setIdx t2 {c_} t1")
                lines.append(f"      let t4 ← Py.setIdx {M} {r} t3")
                lines.append(f"      pure t4))")
                lines.append(f"    {M})")
                lines.append(f"  {M}")
                continue
            if isinstance(s, ast.Expr) and isinstance(s.value, ast.Call) and ast.unparse(s.value.func) == "np.savetxt":
                c = s.value
                if not (len(c.args) == 2 and ast.unparse(c.args[0]) == "output" and isinstance(c.args[1], ast.Name)
                        and env.get(c.args[1].id) == "mat" and [k.arg for k in c.keywords] == ["delimiter"]
                        and ast.unparse(c.keywords[0].value) == "delimiter"):
                    fail(s, "np.savetxt call")
                saved = c.args[1].id
                continue
            fail(s, f"statement {type(s).__name__}")
        if saved is None or delim is None:
            fail(fn, "no np.savetxt(output, <matrix>, delimiter=delimiter)")
        out = [f"/-- `pre_compute_distance` ({rel}:{fn.lineno}): the matrix handed to `np.savetxt`; `W a b` is the registered metric on",
               "(row a, row b) of `data` (C06), `n_data` its number of rows. -/",
               "def pre_compute_distance (W : Int → Int → Option Int) (n_data : Int) : Option (Array (Array Int)) := do"]
        out += ["  " + ln for ln in lines] + [f"  pure {saved}", "",
                "/-- the `delimiter` expression, as written -/",
                "def delimiterExpr : String := " + '"' + delim.replace("\\", "\\\\").replace('"', '\\"') + '"', ""]
        if delim_fn is not None:
            q = lambda t: '"' + str(t).replace("\\", "\\\\").replace('"', '\\"') + '"'
            out += ["/-- the delimiter as a function of the extension of `output` (the text after its last dot) -/",
                    f"def delimiterFor (ext : String) : String := if ext == {q(delim_fn[0])} then {q(delim_fn[1])} else {q(delim_fn[2])}", ""]
        body_ = out
        err = None
    except Untranslatable as ex:
        body_ = ['theorem untranslatable : False := by', '  exact (show False from nomatch (⟨⟩ : Unit))  -- ' + str(ex)]
        err = str(ex)
    write(os.path.join(gen, "PrecompImp.lean"), "\n".join(head + body_ + ["end Opf.Gen.PrecompImp"]) + "\n")
    return err


def translate_split(repo, gen, write):
    rel = "opfython/stream/splitter.py"
    head = [f"/- GENERATED by tools/translate_np.py from /repo/{rel} — do not edit. -/",
            "import OpfVerif.Model.PyNumpy", "set_option linter.unusedVariables false",
            "namespace Opf.Gen.SplitImp", "open Opf", ""]
    try:
        t = NpFn(os.path.join(repo, rel), rel)
        body = t.function("split", ["X", "Y"]) + t.function("split_with_index", ["X", "Y"]) + \
            t.function("merge", ["X_1", "X_2", "Y_1", "Y_2"])
        err = None
    except Untranslatable as ex:
        body = ['theorem untranslatable : False := by', '  exact (show False from nomatch (⟨⟩ : Unit))  -- ' + str(ex)]
        err = str(ex)
    write(os.path.join(gen, "SplitImp.lean"), "\n".join(head + body + ["end Opf.Gen.SplitImp"]) + "\n")
    return err


if __name__ == "__main__":
    def w(p, t):
        open(p, "w").write(t)
    print(translate_split("/repo", "/tmp/gen_try", w))
    print(translate_precompute("/repo", "/tmp/gen_try", w))
