#!/venv/bin/python
"""Translator: /repo Python source -> lean/OpfVerif/Gen/*.lean   (DESIGN §2.1)

Re-run by every check from the current working tree.  It reads only the AST (nothing is
imported or executed), supports exactly the constructs the distance bodies use, and FAILS LOUDLY
on anything else ("untranslatable construct at file:line"): a failure is a broken proof obligation.

  Gen/Distance.lean   one `S` term per `*_distance` function (+ decorator stack, registry dict)
  Gen/Registry.lean   whitelist of `OPF.distance`'s setter, constants of utils/constants.py
  Gen/Decorator.lean  effect term of `avoid_zero_division`'s wrapper
  Gen/Effects.lean    store statements (targets and their roots) of every function in the library
  Gen/Fingerprint.lean  normalised-AST hashes of the functions mirrored by hand-written models
  Gen/HeapImp.lean    statement-level translation of core/heap.py            (tools/translate_imp.py)
  Gen/SupImp.lean     … of Subgraph.mark_nodes, SupervisedOPF._find_prototypes/fit/predict (tools/translate_fn.py)
  Gen/SemiImp.lean    … of SemiSupervisedOPF.fit
  Gen/ClusImp.lean    … of KNNSupervisedOPF._clustering and UnsupervisedOPF._clustering
  Gen/ArcsImp.lean    … of KNNSubgraph.create_arcs and Subgraph.destroy_arcs
  Gen/PdfImp.lean, CutImp.lean, KnnPredImp.lean   … of calculate_pdf, _normalized_cut, the two density `predict`s
                      (float arithmetic as the uninterpreted operations `Py.FOps`); propagate_labels in ClusImp,
                      eliminate_maxima_height in PdfImp
  Gen/SplitImp.lean, PrecompImp.lean   … of split / split_with_index / merge and pre_compute_distance (tools/translate_np.py)
  Gen/ConvImp.lean, ParseImp.lean      … of opf2txt / opf2csv / opf2json (reading part), load_json (record loop), parse_loader (tools/translate_conv.py)
"""
import ast
import decimal
import hashlib
import os
import sys

sys.path.insert(0, os.path.dirname(os.path.abspath(__file__)))

REPO = os.environ.get("VERIF_REPO", "/repo")
VERIF = os.path.dirname(os.path.dirname(os.path.abspath(__file__)))
GEN = os.path.join(VERIF, "lean", "OpfVerif", "Gen")


class Untranslatable(Exception):
    pass


def fail(node, path, msg):
    raise Untranslatable(f"untranslatable construct at {path}:{getattr(node, 'lineno', '?')}: {msg}")


def lit(value):
    """decimal m * 10^e of a Python int/float literal, exactly as written by repr()."""
    d = decimal.Decimal(repr(value))
    sign, digits, exp = d.as_tuple()
    m = int("".join(map(str, digits)))
    while m != 0 and m % 10 == 0:
        m //= 10
        exp += 1
    if m == 0:
        exp = 0
    if sign:
        m = -m
    return m, exp


def L(i):
    return f"({i})" if i < 0 else str(i)


# ---------------------------------------------------------------- constants.py
def read_constants():
    path = os.path.join(REPO, "opfython/utils/constants.py")
    tree = ast.parse(open(path).read())
    out = {}
    for n in tree.body:
        if isinstance(n, ast.Assign) and len(n.targets) == 1 and isinstance(n.targets[0], ast.Name):
            name = n.targets[0].id
            v = n.value
            if isinstance(v, ast.Constant) and isinstance(v.value, (int, float)):
                out[name] = v.value
            elif isinstance(v, ast.UnaryOp) and isinstance(v.op, ast.USub) and isinstance(v.operand, ast.Constant):
                out[name] = -v.operand.value
            elif isinstance(v, ast.Attribute) and ast.unparse(v) == "sys.float_info.max":
                out[name] = "FLOAT_MAX"
            else:
                fail(n, path, f"constant {name} = {ast.unparse(v)}")
    return out


# ---------------------------------------------------------------- distance.py
class DistTranslator:
    def __init__(self, consts):
        self.consts = consts
        self.path = os.path.join(REPO, "opfython/math/distance.py")
        self.tree = ast.parse(open(self.path).read())
        self.funcs = {n.name: n for n in self.tree.body if isinstance(n, ast.FunctionDef)}
        self.cache = {}
        self.registry = None
        for n in self.tree.body:
            if isinstance(n, ast.Assign) and ast.unparse(n.targets[0]) == "DISTANCES":
                if not isinstance(n.value, ast.Dict):
                    fail(n, self.path, "DISTANCES is not a dict literal")
                self.registry = []
                for k, v in zip(n.value.keys, n.value.values):
                    if not (isinstance(k, ast.Constant) and isinstance(k.value, str) and isinstance(v, ast.Name)):
                        fail(n, self.path, "DISTANCES entry")
                    self.registry.append((k.value, v.id))
        if self.registry is None:
            raise Untranslatable("DISTANCES dict not found in distance.py")

    def decorators(self, fn):
        decs = [ast.unparse(d) for d in fn.decorator_list]
        dec_avoid = any(d.endswith("avoid_zero_division") for d in decs)
        njit = any(d.startswith("njit") for d in decs)
        other = [d for d in decs if not (d.endswith("avoid_zero_division") or d.startswith("njit"))]
        if other:
            fail(fn, self.path, f"unknown decorator {other}")
        # order matters: avoid_zero_division must be the OUTER decorator (listed first)
        if dec_avoid and njit and not decs[0].endswith("avoid_zero_division"):
            fail(fn, self.path, "decorator order")
        return dec_avoid, njit

    # --- expression translation; returns (kind, leanterm) with kind in {'V','S','B'} ('B' = boolean vector as (a, op, b))
    def expr(self, e, env):
        p = self.path
        if isinstance(e, ast.Name):
            if e.id in env:
                return env[e.id]
            fail(e, p, f"unknown name {e.id}")
        if isinstance(e, ast.Constant):
            if isinstance(e.value, bool) or not isinstance(e.value, (int, float)):
                fail(e, p, f"constant {e.value!r}")
            m, x = lit(e.value)
            return ("L", (m, x))
        if isinstance(e, ast.Attribute):
            s = ast.unparse(e)
            if s.startswith("c.") and s[2:] in self.consts and self.consts[s[2:]] != "FLOAT_MAX":
                m, x = lit(self.consts[s[2:]])
                return ("L", (m, x))
            fail(e, p, f"attribute {s}")
        if isinstance(e, ast.Subscript):
            s = ast.unparse(e)
            if s in ("x.shape[0]", "y.shape[0]"):
                return ("S", "S.len")
            if isinstance(e.value, ast.Name) and isinstance(e.slice, ast.Name) and e.slice.id == env.get("__loopvar__"):
                k, t = env.get(e.value.id, (None, None))
                if k in ("V", "B"):
                    return (k, t)
            fail(e, p, f"subscript {s}")
        if isinstance(e, ast.UnaryOp) and isinstance(e.op, ast.USub):
            k, t = self.expr(e.operand, env)
            if k == "L":
                return ("L", (-t[0], t[1]))
            if k == "S":
                return ("S", f"(S.neg {t})")
            if k == "V":
                return ("V", f"(V.sub (V.lit 0 0) {t})")
            fail(e, p, "unary minus")
        if isinstance(e, ast.BinOp):
            if isinstance(e.op, ast.Pow):
                k, t = self.expr(e.left, env)
                if not isinstance(e.right, ast.Constant):
                    fail(e, p, "non-constant exponent")
                if e.right.value == 2:
                    op = "sq"
                elif e.right.value == 0.5:
                    op = "sqrt"
                else:
                    fail(e, p, f"exponent {e.right.value}")
                if k == "L":
                    k, t = "S", self.as_s(("L", t))
                return (k, f"({k}.{op} {t})")
            ops = {ast.Add: "add", ast.Sub: "sub", ast.Mult: "mul", ast.Div: "div"}
            if type(e.op) not in ops:
                fail(e, p, f"operator {type(e.op).__name__}")
            a = self.expr(e.left, env)
            b = self.expr(e.right, env)
            return self.binop(ops[type(e.op)], a, b, e)
        if isinstance(e, ast.Compare):
            if len(e.ops) != 1:
                fail(e, p, "chained comparison")
            a = self.expr(e.left, env)
            if isinstance(e.ops[0], ast.Is) and isinstance(e.comparators[0], ast.Constant) and e.comparators[0].value is True:
                return a  # `mask[i] is True` — numba evaluates the truth of the element
            b = self.expr(e.comparators[0], env)
            if isinstance(e.ops[0], ast.NotEq):
                return ("B", ("ne", self.as_v(a, e), self.as_v(b, e)))
            if isinstance(e.ops[0], ast.GtE) and b == ("L", (0, 0)):
                return ("B", ("ge0", self.as_v(a, e)))
            if isinstance(e.ops[0], ast.Is) and isinstance(e.comparators[0], ast.Constant) and e.comparators[0].value is True:
                return a  # `mask[i] is True` — numba evaluates the truth of the element
            fail(e, p, f"comparison {ast.unparse(e)}")
        if isinstance(e, ast.Call):
            f = ast.unparse(e.func)
            args = [self.expr(a, env) for a in e.args]
            if e.keywords:
                fail(e, p, "keyword arguments")
            if f == "np.sum" and len(args) == 1 and args[0][0] == "V":
                return ("S", f"(S.sum {args[0][1]})")
            if f == "np.amax" and len(args) == 1 and args[0][0] == "V":
                return ("S", f"(S.amax {args[0][1]})")
            if f == "np.count_nonzero" and len(args) == 1 and args[0][0] == "B" and args[0][1][0] == "ne":
                return ("S", f"(S.sum (V.neInd {args[0][1][1]} {args[0][1][2]}))")
            if f == "np.fabs" and len(args) == 1 and args[0][0] == "V":
                return ("V", f"(V.abs {args[0][1]})")
            if f == "np.log" and len(args) == 1 and args[0][0] == "V":
                return ("V", f"(V.log {args[0][1]})")
            if f == "math.log" and len(args) == 1 and args[0][0] in ("S", "L"):
                return ("S", f"(S.log {self.as_s(args[0])})")
            if f == "math.exp" and len(args) == 1 and args[0][0] in ("S", "L"):
                return ("S", f"(S.exp {self.as_s(args[0])})")
            if f in ("np.minimum", "np.maximum", "max", "min") and len(args) == 2:
                op = "min" if f.endswith("min") or f == "np.minimum" else "max"
                if f in ("max", "min") or all(a[0] in ("S", "L") for a in args):
                    if any(a[0] == "V" for a in args):
                        fail(e, p, "builtin max/min on vectors")
                    return ("S", f"(S.{op} {self.as_s(args[0])} {self.as_s(args[1])})")
                return ("V", f"(V.{op} {self.as_v(args[0], e)} {self.as_v(args[1], e)})")
            if f == "np.zeros":
                return ("Z", None)
            if f in self.funcs and len(e.args) == 2 and [ast.unparse(a) for a in e.args] == ["x", "y"] \
                    and env.get("x") == ("V", "V.x") and env.get("y") == ("V", "V.y"):
                inner = self.funcs[f]
                dec, _ = self.decorators(inner)
                if dec:
                    fail(e, p, f"call of decorated sibling {f}")
                return ("S", self.body(inner))
            fail(e, p, f"call {ast.unparse(e)}")
        fail(e, p, f"expression {ast.unparse(e)}")

    def as_s(self, a):
        k, t = a
        if k == "L":
            return f"(S.lit {L(t[0])} {L(t[1])})"
        if k == "S":
            return t
        raise Untranslatable("vector used as scalar")

    def as_v(self, a, node):
        k, t = a
        if k == "L":
            return f"(V.lit {L(t[0])} {L(t[1])})"
        if k == "V":
            return t
        fail(node, self.path, "non-literal scalar broadcast into a vector expression")

    def binop(self, op, a, b, node):
        ka, kb = a[0], b[0]
        if ka == "L" and kb == "L":
            return ("S", f"(S.{op} {self.as_s(a)} {self.as_s(b)})")
        if "V" in (ka, kb):
            return ("V", f"(V.{op} {self.as_v(a, node)} {self.as_v(b, node)})")
        if ka in ("S", "L") and kb in ("S", "L"):
            return ("S", f"(S.{op} {self.as_s(a)} {self.as_s(b)})")
        fail(node, self.path, f"operands of kind {ka},{kb}")

    def body(self, fn):
        if fn.name in self.cache:
            return self.cache[fn.name]
        p = self.path
        params = [a.arg for a in fn.args.args]
        if params[:2] != ["x", "y"]:
            fail(fn, p, "parameters")
        env = {"x": ("V", "V.x"), "y": ("V", "V.y")}
        defaults = fn.args.defaults
        for name, dflt in zip(params[len(params) - len(defaults):], defaults):
            if not isinstance(dflt, ast.Constant):
                fail(fn, p, "default")
            env[name] = ("L", lit(dflt.value))
        if len(params) - len(defaults) != 2:
            fail(fn, p, "extra positional parameters")
        result = None
        for st in fn.body:
            if isinstance(st, ast.Expr) and isinstance(st.value, ast.Constant) and isinstance(st.value.value, str):
                continue
            if isinstance(st, ast.Assign) and len(st.targets) == 1 and isinstance(st.targets[0], ast.Name):
                env[st.targets[0].id] = self.expr(st.value, env)
                continue
            if isinstance(st, ast.For):
                # for i in range(x.shape[0]): if <B>[i] is True: dist[i] = A  else: dist[i] = B
                if not (isinstance(st.target, ast.Name) and ast.unparse(st.iter) in ("range(x.shape[0])", "range(y.shape[0])")
                        and len(st.body) == 1 and isinstance(st.body[0], ast.If) and not st.orelse):
                    fail(st, p, "for loop shape")
                env2 = dict(env)
                env2["__loopvar__"] = st.target.id
                iff = st.body[0]
                cond = self.expr(iff.test, env2)
                if cond[0] != "B" or cond[1][0] != "ge0":
                    fail(iff, p, "loop condition")

                def branch(stmts):
                    if not (len(stmts) == 1 and isinstance(stmts[0], ast.Assign) and isinstance(stmts[0].targets[0], ast.Subscript)):
                        fail(iff, p, "loop branch")
                    tgt = stmts[0].targets[0]
                    if not (isinstance(tgt.value, ast.Name) and env.get(tgt.value.id, (None,))[0] == "Z"
                            and isinstance(tgt.slice, ast.Name) and tgt.slice.id == st.target.id):
                        fail(iff, p, "loop store target")
                    return tgt.value.id, self.as_v(self.expr(stmts[0].value, env2), iff)
                n1, a = branch(iff.body)
                n2, b = branch(iff.orelse)
                if n1 != n2:
                    fail(iff, p, "loop branches store to different arrays")
                env[n1] = ("V", f"(V.iteGe0 {cond[1][1]} {a} {b})")
                continue
            if isinstance(st, ast.Return):
                result = self.expr(st.value, env)
                break
            fail(st, p, f"statement {type(st).__name__}")
        if result is None:
            fail(fn, p, "no return")
        if result[0] == "V":
            fail(fn, p, "returns a vector")
        term = self.as_s(result)
        self.cache[fn.name] = term
        return term


def translate_decorator(consts):
    path = os.path.join(REPO, "opfython/utils/decorator.py")
    tree = ast.parse(open(path).read())
    outer = [n for n in tree.body if isinstance(n, ast.FunctionDef) and n.name == "avoid_zero_division"]
    if not outer:
        raise Untranslatable("avoid_zero_division not found")
    inner = [n for n in outer[0].body if isinstance(n, ast.FunctionDef)]
    if len(inner) != 1:
        fail(outer[0], path, "wrapper shape")
    w = inner[0]
    params = [a.arg for a in w.args.args]
    effects = []
    passed = None
    for st in w.body:
        if isinstance(st, ast.Expr) and isinstance(st.value, ast.Constant):
            continue
        if isinstance(st, ast.AugAssign) and isinstance(st.target, ast.Name) and st.target.id in params \
                and isinstance(st.op, ast.Add) and ast.unparse(st.value) == "c.EPSILON":
            effects.append((params.index(st.target.id), True))
            continue
        if isinstance(st, ast.Assign) and len(st.targets) == 1 and isinstance(st.targets[0], ast.Name) \
                and st.targets[0].id in params and isinstance(st.value, ast.BinOp) and isinstance(st.value.op, ast.Add) \
                and sorted([ast.unparse(st.value.left), ast.unparse(st.value.right)]) == sorted([st.targets[0].id, "c.EPSILON"]):
            effects.append((params.index(st.targets[0].id), False))
            continue
        if isinstance(st, ast.Return) and isinstance(st.value, ast.Call) and ast.unparse(st.value.func) == outer[0].args.args[0].arg:
            passed = [ast.unparse(a) for a in st.value.args]
            if passed != params:
                fail(st, path, "wrapper passes different arguments")
            continue
        fail(st, path, f"statement {ast.unparse(st)[:60]}")
    if passed is None:
        fail(w, path, "wrapper does not call f")
    m, e = lit(consts["EPSILON"])
    return params, effects, (m, e)


def read_whitelist():
    path = os.path.join(REPO, "opfython/core/opf.py")
    tree = ast.parse(open(path).read())
    for n in ast.walk(tree):
        if isinstance(n, ast.FunctionDef) and n.name == "distance" and any(
                ast.unparse(d).endswith(".setter") for d in n.decorator_list):
            for c in ast.walk(n):
                if isinstance(c, ast.Compare) and isinstance(c.ops[0], ast.NotIn) and isinstance(c.comparators[0], ast.List):
                    return [e.value for e in c.comparators[0].elts]
    raise Untranslatable("whitelist of OPF.distance setter not found")


def read_default_and_lookup():
    """how OPF.__init__ resolves the function: must be `d.DISTANCES[distance]`."""
    path = os.path.join(REPO, "opfython/core/opf.py")
    src = open(path).read()
    tree = ast.parse(src)
    for n in ast.walk(tree):
        if isinstance(n, ast.Assign) and ast.unparse(n.targets[0]) == "self.distance_fn":
            return ast.unparse(n.value)
    raise Untranslatable("distance_fn assignment not found")



# ---------------------------------------------------------------- effects (stores and their roots)
MUTATORS = {"append", "insert", "fill", "sort", "update", "extend", "pop", "remove", "clear", "put",
            "resize", "setflags", "itemset", "setdefault", "popitem", "reverse", "partition", "byteswap"}


def base_name(e):
    while isinstance(e, (ast.Subscript, ast.Attribute, ast.Call, ast.Starred)):
        e = e.func if isinstance(e, ast.Call) else e.value
    return e.id if isinstance(e, ast.Name) else None


VIEW_FUNCS = {"np.asarray", "np.asanyarray", "np.atleast_1d", "np.atleast_2d", "np.ravel", "np.reshape", "np.squeeze",
              "np.transpose", "np.swapaxes", "np.ascontiguousarray", "numpy.asarray"}
VIEW_METHODS = {"view", "reshape", "ravel", "squeeze", "transpose", "swapaxes"}


def view_source(val):
    """name whose buffer `val` may share: `np.asarray(x)`, `x.reshape(…)`, `x.T`, `x[...]`, `np.array(x, copy=False)`."""
    if isinstance(val, ast.Call):
        fs = ast.unparse(val.func)
        if fs in VIEW_FUNCS and val.args:
            return view_source(val.args[0])
        if fs in ("np.array", "numpy.array") and val.args and any(k.arg == "copy" and isinstance(k.value, ast.Constant)
                                                                   and k.value.value is False for k in val.keywords):
            return view_source(val.args[0])
        if isinstance(val.func, ast.Attribute) and val.func.attr in VIEW_METHODS:
            return view_source(val.func.value)
        return None
    if isinstance(val, ast.Attribute) and val.attr == "T":
        return view_source(val.value)
    if isinstance(val, (ast.Subscript, ast.Attribute, ast.Name)):
        return base_name(val)
    return None


def memoised_functions():
    """functions wrapped by a caching decorator: their results depend on the call history of the process."""
    out = []
    for dirpath, _, files in sorted(os.walk(os.path.join(REPO, "opfython"))):
        for fn_ in sorted(files):
            if fn_.endswith(".py"):
                pth = os.path.join(dirpath, fn_)
                for node in ast.walk(ast.parse(open(pth).read())):
                    if isinstance(node, (ast.FunctionDef, ast.AsyncFunctionDef)):
                        for d in node.decorator_list:
                            ds = ast.unparse(d)
                            if any(k in ds for k in ("lru_cache", "functools.cache", "cached_property", "memoize", "memoise")) \
                                    or ds in ("cache",):
                                out.append(f"{os.path.relpath(pth, REPO)}:{node.name}:{node.lineno}")
    return out


def collect_effects():
    """every statement of every function under opfython/ that writes through an object:
    (qualified function, root kind, target text, line); root kind in
    param / alias (a local bound to a view of a parameter) / self / local / global."""
    rows = []
    n_global = 0
    root = os.path.join(REPO, "opfython")
    for dirpath, _, files in sorted(os.walk(root)):
        for fn in sorted(files):
            if not fn.endswith(".py"):
                continue
            path = os.path.join(dirpath, fn)
            rel = os.path.relpath(path, REPO)
            tree = ast.parse(open(path).read())

            def visit_func(f, qual):
                nonlocal n_global
                # parameters annotated with an immutable scalar type cannot be written through
                params = {a.arg for a in f.args.args + f.args.kwonlyargs if a.arg not in ("self", "cls")
                          and not (a.annotation is not None and ast.unparse(a.annotation) in ("int", "float", "str", "bool"))}
                if f.args.vararg:
                    params.add(f.args.vararg.arg)
                aliases = {}
                fresh = set()

                def kind(name):
                    if name in ("self", "cls"):
                        return "self"
                    if name in params and name not in fresh:
                        return "param"
                    if name in aliases:
                        return "alias"
                    return "local"

                def record(target_expr, node, what):
                    b = base_name(target_expr)
                    if b is None:
                        return
                    rows.append((f"{rel}:{qual}", kind(b), what[:60].replace('"', "'"), node.lineno))

                def walk(stmts):
                    nonlocal n_global
                    for st in stmts:
                        if isinstance(st, (ast.FunctionDef, ast.AsyncFunctionDef)):
                            visit_func(st, qual + "." + st.name)
                            continue
                        if isinstance(st, ast.ClassDef):
                            continue
                        if isinstance(st, ast.Global):
                            n_global += len(st.names)
                        if isinstance(st, (ast.Assign, ast.AnnAssign, ast.AugAssign)):
                            targets = st.targets if isinstance(st, ast.Assign) else [st.target]
                            flat = []
                            for t in targets:
                                flat += list(t.elts) if isinstance(t, (ast.Tuple, ast.List)) else [t]
                            for t in flat:
                                if isinstance(t, (ast.Subscript, ast.Attribute)):
                                    record(t, st, ast.unparse(t))
                                elif isinstance(t, ast.Name):
                                    if isinstance(st, ast.AugAssign):
                                        # `p += e` on an ndarray parameter is an in-place write
                                        if kind(t.id) in ("param", "alias"):
                                            rows.append((f"{rel}:{qual}", kind(t.id), ast.unparse(st)[:60], st.lineno))
                                    else:
                                        val = st.value
                                        b = view_source(val) if val is not None else None
                                        if b is not None and kind(b) in ("param", "alias"):
                                            aliases[t.id] = b
                                            fresh.discard(t.id)
                                        else:
                                            aliases.pop(t.id, None)
                                            if t.id in params:
                                                fresh.add(t.id)   # parameter name rebound to a fresh value
                        for node in ast.walk(st) if not isinstance(st, (ast.FunctionDef, ast.For, ast.While, ast.If, ast.With, ast.Try)) else []:
                            if isinstance(node, ast.Call) and isinstance(node.func, ast.Attribute) and node.func.attr in MUTATORS:
                                record(node.func.value, node, ast.unparse(node.func))
                        for attr in ("body", "orelse", "finalbody"):
                            sub = getattr(st, attr, None)
                            if isinstance(sub, list) and not isinstance(st, (ast.FunctionDef, ast.ClassDef)):
                                if isinstance(st, (ast.For, ast.While, ast.If, ast.With, ast.Try)):
                                    # calls in the header expressions
                                    hdr = [getattr(st, a, None) for a in ("test", "iter")]
                                    for h in hdr:
                                        if h is not None:
                                            for node in ast.walk(h):
                                                if isinstance(node, ast.Call) and isinstance(node.func, ast.Attribute) and node.func.attr in MUTATORS:
                                                    record(node.func.value, node, ast.unparse(node.func))
                                walk(sub)
                        if isinstance(st, ast.Try):
                            for h in st.handlers:
                                walk(h.body)
                walk(f.body)

            for node in tree.body:
                if isinstance(node, ast.FunctionDef):
                    visit_func(node, node.name)
                elif isinstance(node, ast.ClassDef):
                    for sub in node.body:
                        if isinstance(sub, ast.FunctionDef):
                            visit_func(sub, node.name + "." + sub.name)
    return rows, n_global


def class_level_mutables():
    """class attributes bound to a mutable container at class level (state shared by all instances)."""
    out = []
    root = os.path.join(REPO, "opfython")
    for dirpath, _, files in sorted(os.walk(root)):
        for fn in sorted(files):
            if not fn.endswith(".py"):
                continue
            path = os.path.join(dirpath, fn)
            tree = ast.parse(open(path).read())
            for cls in [n for n in ast.walk(tree) if isinstance(n, ast.ClassDef)]:
                for st in cls.body:
                    if isinstance(st, (ast.Assign, ast.AnnAssign)) and st.value is not None:
                        v = st.value
                        if isinstance(v, (ast.Dict, ast.List, ast.Set, ast.ListComp, ast.DictComp, ast.SetComp)) or \
                                (isinstance(v, ast.Call) and ast.unparse(v.func) in ("dict", "list", "set", "defaultdict", "collections.defaultdict", "OrderedDict", "np.zeros", "np.array", "np.empty")):
                            out.append(f"{os.path.relpath(path, REPO)}:{cls.name}:{st.lineno}")
    return out


def fingerprints():
    """sha256 of the normalised AST (docstrings and logger calls dropped) of every function."""
    out = []
    root = os.path.join(REPO, "opfython")
    for dirpath, _, files in sorted(os.walk(root)):
        for fn in sorted(files):
            if not fn.endswith(".py"):
                continue
            path = os.path.join(dirpath, fn)
            rel = os.path.relpath(path, REPO)
            tree = ast.parse(open(path).read())
            for node in ast.walk(tree):
                if isinstance(node, ast.FunctionDef):
                    body = [b for b in node.body if not (isinstance(b, ast.Expr) and isinstance(b.value, ast.Constant))]
                    body = [b for b in body if not (isinstance(b, ast.Expr) and ast.unparse(b).startswith("logger."))]
                    h = hashlib.sha256(("\n".join(ast.dump(b) for b in body)).encode()).hexdigest()[:16]
                    out.append((f"{rel}:{node.name}:{node.lineno}", h))
    return out


def read_model_forwarding():
    """for every class under opfython/models: does its __init__ hand its `distance` and
    `pre_computed_distance` parameters to the base initialiser unchanged?"""
    out = []
    root = os.path.join(REPO, "opfython", "models")
    for fn in sorted(os.listdir(root)):
        if not fn.endswith(".py") or fn == "__init__.py":
            continue
        path = os.path.join(root, fn)
        tree = ast.parse(open(path).read())
        for cls in [n for n in tree.body if isinstance(n, ast.ClassDef)]:
            init = [n for n in cls.body if isinstance(n, ast.FunctionDef) and n.name == "__init__"]
            ok = False
            if init:
                params = [a.arg for a in init[0].args.args]
                for node in ast.walk(init[0]):
                    if isinstance(node, ast.Call) and isinstance(node.func, ast.Attribute) and node.func.attr == "__init__" \
                            and ast.unparse(node.func.value).startswith("super("):
                        args = [ast.unparse(a) for a in node.args]
                        kws = {k.arg: ast.unparse(k.value) for k in node.keywords}
                        got_d = (len(args) >= 1 and args[0] == "distance") or kws.get("distance") == "distance"
                        got_p = (len(args) >= 2 and args[1] == "pre_computed_distance") or kws.get("pre_computed_distance") == "pre_computed_distance"
                        ok = got_d and got_p and "distance" in params and "pre_computed_distance" in params
                # `distance` must not be reassigned before the call
                for node in ast.walk(init[0]):
                    if isinstance(node, ast.Assign) and any(isinstance(t, ast.Name) and t.id in ("distance", "pre_computed_distance") for t in node.targets):
                        ok = False
            else:
                ok = True   # inherits OPF.__init__
            out.append((f"{fn}:{cls.name}", ok))
    return out


def read_distance_sites():
    """every place where a model chooses between a pre-computed lookup and an on-the-fly evaluation:
    `if [self.]pre_computed_distance: T = M[A.idx][B.idx]  else: T = fn(A.features, B.features)`.
    Returns (sites, unguarded): sites = (function, A, B, ok) with ok = same target, same node
    expressions in the same order on both branches; unguarded = functions calling the distance function
    outside such an else-branch."""
    sites, unguarded = [], []
    fn_names = ("self.distance_fn", "distance_function", "distance_fn")
    root = os.path.join(REPO, "opfython")
    for dirpath, _, files in sorted(os.walk(root)):
        for fname in sorted(files):
            if not fname.endswith(".py"):
                continue
            path = os.path.join(dirpath, fname)
            rel = os.path.relpath(path, REPO)
            tree = ast.parse(open(path).read())
            for f in [n for n in ast.walk(tree) if isinstance(n, ast.FunctionDef)]:
                guarded_calls = set()
                for node in ast.walk(f):
                    if isinstance(node, ast.If) and ast.unparse(node.test) in ("self.pre_computed_distance", "pre_computed_distance"):
                        # a lookup site reads pre_distances[..][..] or evaluates the metric; configuration / shape
                        # checks on the same flag are not lookup sites
                        has_call = any(isinstance(x, ast.Call) and ast.unparse(x.func) in fn_names for b in node.orelse + node.body for x in ast.walk(b))
                        has_lookup = any(isinstance(x, ast.Subscript) and isinstance(x.value, ast.Subscript)
                                         and ast.unparse(x.value.value) in ("self.pre_distances", "pre_distances")
                                         for b in node.orelse + node.body for x in ast.walk(b))
                        if not (has_call or has_lookup):
                            continue
                        ok = False
                        A = B = "?"
                        try:
                            t, e = node.body, node.orelse
                            if len(t) == 1 and len(e) == 1 and isinstance(t[0], ast.Assign) and isinstance(e[0], ast.Assign):
                                tv, ev = t[0].value, e[0].value
                                if isinstance(tv, ast.Subscript) and isinstance(tv.value, ast.Subscript) and isinstance(ev, ast.Call) \
                                        and ast.unparse(ev.func) in fn_names and len(ev.args) == 2 and not ev.keywords:
                                    a_t, b_t = ast.unparse(tv.value.slice), ast.unparse(tv.slice)
                                    a_e, b_e = ast.unparse(ev.args[0]), ast.unparse(ev.args[1])
                                    A, B = a_t, b_t
                                    ok = (a_t.endswith(".idx") and b_t.endswith(".idx") and a_e == a_t[:-4] + ".features"
                                          and b_e == b_t[:-4] + ".features"
                                          and ast.unparse(t[0].targets[0]) == ast.unparse(e[0].targets[0])
                                          and ast.unparse(tv.value.value) in ("self.pre_distances", "pre_distances"))
                                    guarded_calls.add(id(ev))
                        except Exception:
                            ok = False
                        sites.append((f"{rel}:{f.name}:{node.lineno}", A.replace('"', "'"), B.replace('"', "'"), ok))
                for node in ast.walk(f):
                    if isinstance(node, ast.Call) and ast.unparse(node.func) in fn_names and id(node) not in guarded_calls:
                        unguarded.append(f"{rel}:{f.name}")
    return sites, sorted(set(unguarded))


def write(path, text):
    os.makedirs(os.path.dirname(path), exist_ok=True)
    if os.path.exists(path) and open(path).read() == text:
        return
    with open(path, "w") as f:
        f.write(text)


def main():
    consts = read_constants()
    dt = DistTranslator(consts)
    out = ["/- GENERATED by tools/translate.py from /repo/opfython/math/distance.py — do not edit. -/",
           "import OpfVerif.Model.Expr", "namespace Opf.Gen", ""]
    names = []
    meta = []
    params, effects, eps = translate_decorator(consts)
    for fname, fn in dt.funcs.items():
        if not fname.endswith("_distance"):
            continue
        term = dt.body(fn)
        dec, njit = dt.decorators(fn)
        out.append(f"/-- body of `{fname}` (line {fn.lineno}) -/")
        out.append(f"def body_{fname} : S := {term}")
        out.append("")
        names.append(fname)
        meta.append((fname, dec, njit))
    out.append("/-- (function name, decorated by avoid_zero_division, compiled by numba) -/")
    out.append("def functions : List (String × Bool × Bool) := [")
    out.append(",\n".join(f'  ("{n}", {str(d).lower()}, {str(j).lower()})' for n, d, j in meta))
    out.append("]")
    out.append("")
    out.append("/-- the `DISTANCES` dictionary: identifier ↦ function name -/")
    out.append("def registry : List (String × String) := [")
    out.append(",\n".join(f'  ("{k}", "{v}")' for k, v in dt.registry))
    out.append("]")
    out.append("")
    out.append("def bodies : List (String × S) := [")
    out.append(",\n".join(f'  ("{n}", body_{n})' for n in names))
    out.append("]")
    out.append("")
    out.append("end Opf.Gen")
    write(os.path.join(GEN, "Distance.lean"), "\n".join(out) + "\n")

    wl = read_whitelist()
    lookup = read_default_and_lookup()
    reg = ["/- GENERATED by tools/translate.py from opfython/core/opf.py and utils/constants.py — do not edit. -/",
           "namespace Opf.Gen", "",
           "/-- identifiers accepted by the `OPF.distance` setter -/",
           "def whitelist : List String := [" + ", ".join(f'"{w}"' for w in wl) + "]", "",
           f'/-- right-hand side of `self.distance_fn = …` in `OPF.__init__` -/',
           f'def distanceFnLookup : String := "{lookup}"', ""]
    fw = read_model_forwarding()
    reg.append("/-- (model class, its __init__ forwards `distance` and `pre_computed_distance` unchanged to OPF.__init__) -/")
    reg.append("def modelForwards : List (String × Bool) := [" + ", ".join(f'("{a}", {str(b).lower()})' for a, b in fw) + "]")
    reg.append("")
    for k, v in consts.items():
        if v == "FLOAT_MAX":
            reg.append(f"def const_{k}_isFloatMax : Bool := true")
        else:
            m, e = lit(v)
            reg.append(f"def const_{k} : Int × Int := ({L(m)}, {L(e)})   -- {v!r}")
    reg += ["", "end Opf.Gen"]
    write(os.path.join(GEN, "Registry.lean"), "\n".join(reg) + "\n")

    dec = ["/- GENERATED by tools/translate.py from opfython/utils/decorator.py — do not edit. -/",
           "namespace Opf.Gen", "",
           "/-- one entry per statement of the wrapper that shifts a parameter by EPSILON:",
           "`(parameter index, inPlace)`; `inPlace = true` for an augmented assignment `p += EPSILON`",
           "(on a numpy array: a write through the caller's buffer), `false` for a rebinding",
           "`p = p + EPSILON` (a fresh array; the caller's is untouched). -/",
           "def decoratorShifts : List (Nat × Bool) := [" + ", ".join(f"({i}, {str(b).lower()})" for i, b in effects) + "]", "",
           f"def decoratorParams : Nat := {len(params)}",
           f"def decoratorEps : Int × Int := ({L(eps[0])}, {L(eps[1])})", "", "end Opf.Gen"]
    write(os.path.join(GEN, "Decorator.lean"), "\n".join(dec) + "\n")

    rows, n_global = collect_effects()
    eff = ["/- GENERATED by tools/translate.py from every function under /repo/opfython — do not edit. -/",
           "namespace Opf.Gen", "",
           "/-- every statement that writes through an object: (file:function, root kind, target, line).",
           "root kind: param = a parameter of the function (the caller's object), alias = a local bound to a",
           "view of a parameter, self = the receiver, local = an object created inside the function. -/",
           "def stores : List (String × String × String × Nat) := ["]
    eff.append(",\n".join(f'  ("{a}", "{b}", "{c}", {d})' for a, b, c, d in rows))
    un = []
    for dirpath, _, files in sorted(os.walk(os.path.join(REPO, "opfython"))):
        for fn_ in sorted(files):
            if fn_.endswith(".py"):
                pth = os.path.join(dirpath, fn_)
                for node in ast.walk(ast.parse(open(pth).read())):
                    if isinstance(node, ast.Call) and ast.unparse(node.func) in ("np.empty", "np.empty_like", "numpy.empty", "np.ndarray"):
                        un.append(f"{os.path.relpath(pth, REPO)}:{node.lineno}")
    cm = class_level_mutables()
    eff += ["]", "", f"/-- number of names declared `global` inside functions -/", f"def globalDecls : Nat := {n_global}", "",
            "/-- class attributes bound to a mutable container at class level (shared across instances) -/",
            "def classLevelMutables : List String := [" + ", ".join(f'"{c}"' for c in cm) + "]", "",
            "/-- allocations of uninitialised memory (`np.empty` …): their contents depend on the process history -/",
            "def uninitialisedAllocs : List String := [" + ", ".join(f'"{c}"' for c in un) + "]", "",
            "/-- functions wrapped by a caching decorator (`lru_cache`, `cache`, …): hidden state filled by earlier calls -/",
            "def memoised : List String := [" + ", ".join(f'"{c}"' for c in memoised_functions()) + "]", "", "end Opf.Gen"]
    write(os.path.join(GEN, "Effects.lean"), "\n".join(eff) + "\n")

    sites, ung = read_distance_sites()
    ds = ["/- GENERATED by tools/translate.py: pre-computed lookup vs on-the-fly evaluation sites — do not edit. -/",
          "namespace Opf.Gen", "",
          "/-- (file:function:line, first node's index expression, second node's index expression, well-formed):",
          "well-formed = the else-branch evaluates the metric on the SAME two nodes' features in the SAME order",
          "and assigns the same target, and the then-branch reads `pre_distances[A.idx][B.idx]`. -/",
          "def distanceSites : List (String × String × String × Bool) := ["]
    ds.append(",\n".join(f'  ("{a}", "{b}", "{c}", {str(d).lower()})' for a, b, c, d in sites))
    ds += ["]", "", "/-- functions that evaluate the metric outside such a guarded else-branch -/",
           "def unguardedDistanceCalls : List String := [" + ", ".join(f'"{u}"' for u in ung) + "]", "", "end Opf.Gen"]
    write(os.path.join(GEN, "DistanceSites.lean"), "\n".join(ds) + "\n")

    fps = fingerprints()
    fp = ["/- GENERATED by tools/translate.py — normalised-AST hashes of every function (informational). -/",
          "namespace Opf.Gen", "", "def fingerprints : List (String × String) := ["]
    fp.append(",\n".join(f'  ("{a}", "{b}")' for a, b in fps))
    fp += ["]", "", "end Opf.Gen"]
    write(os.path.join(GEN, "Fingerprint.lean"), "\n".join(fp) + "\n")

    # statement-level translations (DESIGN §2.1b). A failure here leaves a stub that does not build, so only
    # the refinement modules (and the properties that list them) lose their obligations; it is reported, not fatal.
    import translate_imp
    import translate_fn
    notes = []
    for what, err in (("heap", translate_imp.translate_heap(REPO, GEN, consts, write)),):
        if err:
            notes.append(f"TRANSLATOR-IMP({what}): {err}")
    err, fields = translate_fn.translate_supervised(REPO, GEN, consts, write)
    if err:
        notes.append(f"TRANSLATOR-IMP(supervised): {err}")
    err = translate_fn.translate_build(REPO, GEN, consts, write)
    if err:
        notes.append(f"TRANSLATOR-IMP(subgraph constructor): {err}")
    err = translate_fn.translate_semi(REPO, GEN, consts, write, fields)
    if err:
        notes.append(f"TRANSLATOR-IMP(semi): {err}")
    err = translate_fn.translate_cluster(REPO, GEN, consts, write)
    if err:
        notes.append(f"TRANSLATOR-IMP(cluster): {err}")
    err = translate_fn.translate_arcs(REPO, GEN, consts, write)
    if err:
        notes.append(f"TRANSLATOR-IMP(arcs): {err}")
    err = translate_fn.translate_density(REPO, GEN, consts, write)
    if err:
        notes.append(f"TRANSLATOR-IMP(pdf/cut): {err}")
    err = translate_fn.translate_knnpred(REPO, GEN, consts, write)
    if err:
        notes.append(f"TRANSLATOR-IMP(knn predict): {err}")
    import translate_np
    err = translate_np.translate_split(REPO, GEN, write)
    if err:
        notes.append(f"TRANSLATOR-IMP(splitter): {err}")
    err = translate_np.translate_precompute(REPO, GEN, write)
    if err:
        notes.append(f"TRANSLATOR-IMP(pre_compute_distance): {err}")
    import translate_sel
    err = translate_sel.translate_select(REPO, GEN, write)
    if err:
        notes.append(f"TRANSLATOR-IMP(selection loops): {err}")
    err = translate_sel.translate_learn(REPO, GEN, write)
    if err:
        notes.append(f"TRANSLATOR-IMP(learn): {err}")
    err = translate_sel.translate_prune(REPO, GEN, write)
    if err:
        notes.append(f"TRANSLATOR-IMP(prune): {err}")
    import translate_meas
    err = translate_meas.translate_measures(REPO, GEN, write)
    if err:
        notes.append(f"TRANSLATOR-IMP(measures): {err}")
    err = translate_meas.translate_normalize(REPO, GEN, write)
    if err:
        notes.append(f"TRANSLATOR-IMP(normalize): {err}")
    err = translate_meas.translate_persist(REPO, GEN, write)
    if err:
        notes.append(f"TRANSLATOR-IMP(save/load): {err}")
    import translate_conv
    err = translate_conv.translate_conv(REPO, GEN, write)
    if err:
        notes.append(f"TRANSLATOR-IMP(converters / load_json): {err}")
    err = translate_conv.translate_parse(REPO, GEN, write)
    if err:
        notes.append(f"TRANSLATOR-IMP(parse_loader): {err}")
    err = translate_conv.translate_load(REPO, GEN, write)
    if err:
        notes.append(f"TRANSLATOR-IMP(Subgraph._load): {err}")
    err = translate_conv.translate_load(REPO, GEN, write, "opfython/core/opf.py", "OPF", "_read_distances", "ReadDistImp")
    if err:
        notes.append(f"TRANSLATOR-IMP(OPF._read_distances): {err}")
    for n in notes:
        print(n)
    return 0


if __name__ == "__main__":
    try:
        sys.exit(main())
    except Untranslatable as e:
        print("TRANSLATOR:", e)
        sys.exit(3)
