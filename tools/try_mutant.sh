#!/bin/sh
# usage: tools/try_mutant.sh <patch.diff> <Cxx> [<Cyy> ...]
# applies the patch to /repo, runs the given checks (quick tier), ALWAYS reverts /repo afterwards.
set -u
export VERIF_EVIDENCE_DIR=/tmp/opfverif-mutant-evidence
patch="$1"; shift
cd /repo || exit 2
if ! git diff --quiet; then echo "/repo is dirty"; exit 2; fi
git apply "$patch" || { echo "patch does not apply"; exit 2; }
trap 'git -C /repo checkout -- . ; /venv/bin/python /verif/tools/translate.py >/dev/null 2>&1; find /repo/opfython -name "*.nbi" -newer /verif/MANIFEST.json -delete 2>/dev/null' EXIT
cd /verif
for p in "$@"; do
  out=$(./check "$p" 2>&1); rc=$?
  echo "$out" | grep -E "VIOLATION|KNOWN|^$p:" | head -5
  echo "[$p rc=$rc]"
  if [ $rc -eq 1 ]; then
    f=$(echo "$out" | grep -o 'replay=[^ ]*' | head -1 | cut -d= -f2)
    [ -n "$f" ] && python3 -c "
import json,sys
e=json.load(open('$f')); print('   what:', str(e.get('what', e.get('theorems_not_checking')))[:300]); print('   notes:', str(e.get('lean_notes',''))[:300])"
  fi
done
