#!/bin/sh
# usage: tools/par_seeded.sh [workers] [glob, default 'C*_*'] [results file, default seeded/RESULTS.md]
#   — runs every seeded change (or those matching the glob, e.g. 'C*_[GH]') against the check of its property on SCRATCH
# copies (a git worktree of /repo at HEAD + a copy of /verif per worker, under /tmp/opfverif-par/), in parallel,
# and writes seeded/RESULTS.md. /repo itself is never touched; every scratch worktree/copy is removed at the end.
# (The registered way to try ONE change against /repo itself is tools/try_mutant.sh.)
N=${1:-6}
GLOB=${2:-C*_*}
cd "$(dirname "$0")/.." || exit 2
OUTF=${3:-seeded/RESULTS.md}
ROOT=/tmp/opfverif-par
rm -rf $ROOT; mkdir -p $ROOT
# SEEDED_LIST=<file with one change id per line> restricts the run to those changes (e.g. the ones a died worker left over)
if [ -n "${SEEDED_LIST:-}" ]; then sed 's#^#seeded/#' "$SEEDED_LIST" > $ROOT/all; else ls -d seeded/$GLOB | sort > $ROOT/all; fi
i=0
while read d; do echo "$d" >> $ROOT/list$((i % N)); i=$((i+1)); done < $ROOT/all
for w in $(seq 0 $((N-1))); do
  (
    W=$ROOT/w$w
    mkdir -p $W
    sleep $w      # `git worktree add` takes a lock on /repo/.git: started together, some workers lost it and died
    git -C /repo worktree add -q --detach $W/repo HEAD || { sleep 5; git -C /repo worktree add -q --detach $W/repo HEAD; } || exit 2
    rsync -a --exclude .git --exclude evidence /verif/ $W/verif/
    cd $W/verif
    VERIF_REPO=$W/repo /venv/bin/python tools/translate.py >/dev/null 2>&1
    while read d; do
      id=$(basename $d); p=${id%_*}
      git -C $W/repo apply "/verif/$d/patch.diff" || { echo "| $id | $p | - | patch does not apply |" >> $ROOT/out$w; continue; }
      res=$(VERIF_REPO=$W/repo VERIF_EVIDENCE_DIR=$W/ev ./check $p 2>&1); rc=$?
      git -C $W/repo checkout -- .
      v=$(echo "$res" | grep -E "VIOLATION" | head -1 | sed 's/|/\\|/g' | sed "s#$W/ev#evidence#")
      echo "| $id | $p | $rc | ${v:-(none)} |" >> $ROOT/out$w
      echo "$id rc=$rc"
    done < $ROOT/list$w
    git -C /repo worktree remove --force $W/repo
  ) > $ROOT/log$w 2>&1 &
done
wait
{
echo "# Seeded changes vs checks (quick tier, seed ${VERIF_SEED:-default}; run on scratch copies by tools/par_seeded.sh)"
echo
echo "| change | check | exit | verdict line |"
echo "|---|---|---|---|"
cat $ROOT/out* | sort
} > $OUTF
git -C /repo worktree prune
grep -c "| 1 |" $OUTF
grep -v "| 1 |" $OUTF | tail -n +5
rm -rf $ROOT
