"""stream `heap`: random operation sequences on the real `Heap` vs the Lean model (L0),
state compared after every operation; shadow priority queue = oracle of C05."""
from common import *  # noqa

TOPH = 10 ** 15


def _obs(h, ret):
    cnt = h.last + 1
    # a corrupted structure (`last` beyond the arrays, identifiers out of range) must surface as a
    # disagreement with the model, not as a crash of the harness
    ps = [h.p[k] if 0 <= k < len(h.p) else -99 for k in range(cnt)]
    cost = [TOPH if c == FLOAT_MAX else int(c) for c in h.cost]
    pos = [h.pos[x] if isinstance(x, int) and 0 <= x < len(h.pos) else -99 for x in ps]
    return f"{ret} {cnt} | {ints(ps)} | {ints(pos)} | {ints(h.color)} | {ints(cost)}"


BOOST = int(os.environ.get("VERIF_BOOST", "1"))


def run(rng, tier, res=None):
    load_opfython()
    from opfython.core.heap import Heap
    res = res or Result("heap")
    ncases = (1500 * BOOST) if tier == "quick" else 30000
    lines, obs, metas = [], [], []
    for case in range(ncases):
        size = rng.choice([1, 2, 3, 3, 4, 5, 6, 7, 8, 10, 12])
        is_max = rng.random() < 0.5
        contract = rng.random() < 0.8
        alphabet = rng.choice([[1, 2], [1, 2, 3, 4], list(range(1, 4 * size + 1)), list(range(-5, 6)),
                               [10 ** 12 + t for t in range(4 * size)]])     # distinct costs whose relative gaps are ~1e-12
        nops = rng.randint(1, 60 if tier == "quick" else 120)
        # ops are generated against the REAL heap so that the generator knows the exact colours
        if rng.random() < 0.25:
            # the policy chosen (or changed, while the heap is still empty) through the public property
            h = Heap(size) if rng.random() < 0.5 else Heap(size, "min" if is_max else "max")
            h.policy = "max" if is_max else "min"
            res.hit("policy_via_setter")
        else:
            h = Heap(size, "max" if is_max else "min")
        toks = []
        segs = []
        shadow = {}            # id -> cost (queued)
        inserted, returned = [], []
        in_contract = True
        stop = False
        crashed = None
        for _ in range(nops):
            if stop or crashed:
                break
            white = [x for x in range(size) if h.color[x] == 0]
            gray = [x for x in range(size) if h.color[x] == 1]
            black = [x for x in range(size) if h.color[x] == 2]
            r = rng.random()
            choices = []
            if white:
                choices += ["ins"] * 4 + ["updw"] * 2
            if gray:
                choices += ["rem"] * 4 + ["updg"] * 4
            else:
                choices += ["rem"]
            if black and not h.is_full():
                choices += ["reins"] * 3       # an element that was returned is inserted again (a new insertion, returned once more)
            if h.is_full():
                choices += ["insfull"] * 2
            if not contract:
                choices += ["updb", "updworse"]
            ch = rng.choice(choices)
            if ch in ("ins", "insfull", "insbad", "reins"):
                if ch == "ins":
                    x = rng.choice(white)
                elif ch == "reins":
                    x = rng.choice(black); res.hit("reinsert_after_remove")
                    if not gray:
                        res.hit("reinsert_into_drained_heap")
                elif ch == "insfull":
                    x = rng.randrange(size)
                else:
                    x = rng.randrange(size)
                    if h.color[x] != 0 and not h.is_full():
                        in_contract = False; res.hit("insert_nonwhite")
                c = rng.choice(alphabet)
                if h.color[x] == 0 or ch == "reins":
                    h.cost[x] = c; toks += [3, x, c]
                else:
                    toks += [0, x]
                full_before = h.is_full()
                try:
                    ret = h.insert(x)
                except Exception as ex:
                    crashed = f"insert raised {type(ex).__name__}"; break
                if ret is not (not full_before):
                    res.violations.append({"property": "C05", "what": "insert result does not reflect fullness"})
                if ret and in_contract:
                    shadow[x] = c; inserted.append(x)
                segs.append(_obs(h, 1 if ret else 0))
                res.hit("insert_ok" if ret else "insert_full")
            elif ch == "rem":
                try:
                    ret = h.remove()
                    if ret is not False and not (0 <= ret < size):
                        crashed = f"remove returned {ret!r}, not a queued identifier"; break
                except Exception as ex:
                    crashed = f"remove raised {type(ex).__name__}"; break
                toks += [1]
                if ret is False:
                    res.hit("remove_empty")
                    if not white:
                        stop = True
                    if in_contract and shadow:
                        res.violations.append({"property": "C05", "what": "remove failed on a non-empty heap"})
                    segs.append(_obs(h, -1))
                else:
                    res.hit("remove_ok")
                    if in_contract:
                        if ret not in shadow:
                            res.violations.append({"property": "C05", "what": f"remove returned {ret}, not queued"})
                        else:
                            best = (max if is_max else min)(shadow.values())
                            if shadow[ret] != best:
                                res.violations.append({"property": "C05", "what": f"remove returned cost {shadow[ret]}, extremal is {best}"})
                            if sum(1 for v in shadow.values() if v == best) > 1:
                                res.hit("remove_with_tie")
                        if h.color[ret] != 2:
                            res.violations.append({"property": "C05", "what": "removed element not BLACK"})
                    shadow.pop(ret, None); returned.append(ret)
                    segs.append(_obs(h, ret))
            else:
                if ch == "updw":
                    x = rng.choice(white); c = rng.choice(alphabet)
                elif ch == "updg":
                    x = rng.choice(gray)
                    cands = [c for c in alphabet if (c >= h.cost[x] if is_max else c <= h.cost[x])]
                    c = rng.choice(cands) if cands else h.cost[x]
                elif ch == "updb":
                    x = rng.choice(black) if black else rng.randrange(size); c = rng.choice(alphabet)
                else:
                    x = rng.choice(gray) if gray else rng.randrange(size); c = rng.choice(alphabet)
                if h.color[x] == 1 and (c < h.cost[x] if is_max else c > h.cost[x]):
                    in_contract = False; res.hit("update_worsening")
                if h.color[x] == 2:
                    in_contract = False; res.hit("update_black")
                if h.color[x] == 0:
                    res.hit("update_white")
                    shadow[x] = c; inserted.append(x)
                elif h.color[x] == 1:
                    res.hit("update_gray"); shadow[x] = c
                try:
                    h.update(x, c)
                except Exception as ex:
                    crashed = f"update raised {type(ex).__name__}"; break
                toks += [2, x, c]
                segs.append(_obs(h, 0))
            # truthfulness (C05) on in-contract histories
            if in_contract:
                if h.is_empty() != (len(shadow) == 0) or h.is_full() != (len(shadow) == size):
                    res.violations.append({"property": "C05", "what": "is_empty/is_full not truthful"})
        if crashed:
            if in_contract:
                res.violations.append({"property": "C05", "what": crashed + " on a history within the contract"})
            for v in res.violations:
                v.setdefault("replay", {"stream": "heap", "tokens": list(toks), "size": size, "max": is_max})
            continue
        if in_contract:
            from collections import Counter as _C
            if any(v > _C(inserted)[x] for x, v in _C(returned).items()):
                res.violations.append({"property": "C05", "what": "an element was returned more often than it was inserted"})
            # drain: everything still queued must come out exactly once
            rest = []
            while True:
                try:
                    ret = h.remove()
                    if ret is not False and not (0 <= ret < size):
                        res.violations.append({"property": "C05", "what": f"remove returned {ret!r}, not a queued identifier"}); break
                except Exception as ex:
                    res.violations.append({"property": "C05", "what": f"remove raised {type(ex).__name__} while draining"}); break
                toks += [1]
                segs.append(_obs(h, -1 if ret is False else ret))
                if ret is False:
                    break
                rest.append(ret)
            if _C(returned + rest) != _C(inserted):
                res.violations.append({"property": "C05", "what": f"insertions {sorted(inserted)} but removals returned {sorted(returned + rest)}: "
                                       f"not every inserted element is returned exactly once"})
            if sorted(rest) != sorted(shadow.keys()):
                res.violations.append({"property": "C05", "what": f"drain returned {rest}, queued were {sorted(shadow)}"})
            if [shadow[x] for x in rest] != sorted((shadow[x] for x in rest), reverse=is_max):
                res.violations.append({"property": "C05", "what": "drain order not sorted by cost"})
            res.hit("in_contract_history")
        n_ops = sum(1 for s in segs)
        line = f"heap {size} {1 if is_max else 0} {TOPH} {n_ops} {ints(toks)}"
        for v in res.violations:
            v.setdefault("replay", {"stream": "heap", "line": line})
        lines.append(line); obs.append(" ; ".join(segs)); metas.append({"size": size, "max": is_max})
        res.add_case(line, nontrivial=(n_ops >= 3 and size >= 2))
        if case < 2:
            res.samples.append({"input": line, "impl": obs[-1][:400]})
    # ---- corpus: fixed histories (witnesses of past seeded changes), run on every check ----
    try:
        import json as _json
        corpus = _json.load(open(os.path.join(VERIF, "corpus", "heap.json")))["cases"]
    except Exception:
        corpus = []
    for cs in corpus:
        size, is_max = cs["size"], cs["max"]
        h = Heap(size, "max" if is_max else "min")
        toks, segs, shadow = [], [], {}
        bad = None
        try:
            for op in cs["ops"]:
                if op[0] == "ins":
                    _, x, c = op
                    h.cost[x] = c; ret = h.insert(x); toks += [3, x, c]
                    if ret:
                        shadow[x] = c
                    segs.append(_obs(h, 1 if ret else 0))
                elif op[0] == "upd":
                    _, x, c = op
                    if h.color[x] != 2:
                        shadow[x] = c
                    h.update(x, c); toks += [2, x, c]; segs.append(_obs(h, 0))
                else:
                    ret = h.remove(); toks += [1]
                    if ret is False:
                        if shadow:
                            bad = "remove failed on a non-empty heap"
                        segs.append(_obs(h, -1))
                    else:
                        best = (max if is_max else min)(shadow.values()) if shadow else None
                        if ret not in shadow or shadow[ret] != best:
                            bad = f"remove returned {ret!r} (cost {shadow.get(ret)}), extremal queued cost is {best}"
                        shadow.pop(ret, None)
                        segs.append(_obs(h, ret if isinstance(ret, int) and 0 <= ret < size else -2))
        except Exception as ex:
            bad = f"{type(ex).__name__} raised"
        line = f"heap {size} {1 if is_max else 0} {TOPH} {len(segs)} {ints(toks)}"
        if bad:
            res.violations.append({"property": "C05", "what": "corpus history: " + bad, "replay": {"stream": "heap", "line": line, "corpus": cs}})
        else:
            lines.append(line); obs.append(" ; ".join(segs)); metas.append({"corpus": True})
        res.add_case(line, nontrivial=True); res.hit("corpus_history")
    compare(res, lines, obs, metas)
    return res
