"""stream `persist`: save / load of every model kind (rotating metrics, with and without pre-computed
distances): deep state and predictions of the re-loaded model vs the original (oracle of C19)."""
from common import *  # noqa
import shutil
import tempfile
import warnings
warnings.filterwarnings("ignore")


def node_state(nd):
    return (nd.idx, nd.label, nd.predicted_label, nd.cluster_label, (str(nd.features.dtype), nd.features.tobytes()), repr(float(nd.cost)),
            repr(float(nd.density)), repr(float(nd.radius)), nd.n_plateaus, tuple(int(a) for a in nd.adjacency), nd.root,
            nd.status, nd.pred, nd.relevant)


def model_state(o):
    sg = o.subgraph
    st = {"distance": o.distance, "pre_computed": o.pre_computed_distance,
          "pre_distances": None if o.pre_distances is None else o.pre_distances.tobytes(),
          "nodes": [node_state(nd) for nd in sg.nodes], "idx_nodes": list(sg.idx_nodes), "trained": sg.trained,
          "n_features": sg.n_features}
    for a in ("n_clusters", "best_k", "constant", "density", "min_density", "max_density"):
        if hasattr(sg, a):
            st[a] = repr(getattr(sg, a))
    for a in ("max_k", "min_k"):
        if hasattr(o, a):
            st[a] = getattr(o, a)
    return st


BOOST = int(os.environ.get("VERIF_BOOST", "1"))


def run(rng, tier, res=None):
    load_opfython()
    import opfython.math.distance as dist
    from opfython.models.supervised import SupervisedOPF
    from opfython.models.semi_supervised import SemiSupervisedOPF
    from opfython.models.knn_supervised import KNNSupervisedOPF
    from opfython.models.unsupervised import UnsupervisedOPF
    res = res or Result("persist")
    names = sorted(dist.DISTANCES)
    ncases = (28 * BOOST) if tier == "quick" else 4 * len(names)
    tmp = tempfile.mkdtemp(prefix="opfverif-persist-")
    cwd0 = os.getcwd()
    os.chdir(tmp)
    saved_states = {}
    last_dotted = {}

    def viol(msgs, meta):
        for m in (msgs if isinstance(msgs, list) else [msgs])[:3]:
            res.violations.append({"property": "C19", "what": m, "replay": meta})

    for case in range(ncases):
        kind = ["sup", "semi", "knn", "unsup"][case % 4]
        metric = names[(case // 4 + rng.randrange(len(names))) % len(names)] if tier == "quick" else names[(case // 4) % len(names)]
        pre = (kind in ("sup", "semi", "unsup")) and rng.random() < 0.4
        n = rng.choice([6, 8, 10]); d = rng.choice([2, 3])
        X = np.array([[rng.uniform(0.1, 1.0) for _ in range(d)] for _ in range(n + 6)])
        X = X / X.sum(axis=1, keepdims=True)          # probability vectors: inside every metric's domain
        Y = np.array([i % 2 for i in range(n)], dtype=int)
        Xt, Xu, Q = X[:n], X[n:n + 2], X[n + 2:]
        if kind == "semi" and case % 8 == 1:
            metric = rng.choice(["euclidean", "manhattan", "squared_euclidean", "chebyshev", "log_squared_euclidean"])
            # integer-typed labeled samples with fractional unlabeled ones: every stored sample keeps its own values
            Xt = np.array([[rng.randint(0, 6) for _ in range(d)] for _ in range(n)], dtype=np.int64)
            pre = False
            res.hit("mixed_dtype_semi")
        if kind == "sup" and case % 8 == 0:
            Xt = Xt.astype(np.float32); pre = False
            res.hit("float32_sup")
        meta = {"kind": kind, "metric": metric, "pre_computed": pre, "X": X.tolist()}
        try:
            fn = dist.DISTANCES[metric]
            M = None
            if pre:
                M = np.array([[float(fn(X[a].copy(), X[b].copy())) for b in range(len(X))] for a in range(len(X))])
            mk = {"sup": lambda: SupervisedOPF(distance=metric), "semi": lambda: SemiSupervisedOPF(distance=metric),
                  "knn": lambda: KNNSupervisedOPF(max_k=2, distance=metric),
                  "unsup": lambda: UnsupervisedOPF(min_k=1, max_k=3, distance=metric)}[kind]
            o = mk()
            dfile = None
            if pre and case % 2 == 0:
                # constructed from a distance FILE, then given another matrix through the public setter; the file is
                # regenerated later (before the model is loaded again): what was saved is what must come back
                dfile = os.path.join(tmp, f"dist{case % 3}.csv")
                np.savetxt(dfile, np.array([[rng.uniform(0.5, 9.0) for _ in range(len(X))] for _ in range(len(X))]), delimiter=",")
                kwf = {"distance": metric, "pre_computed_distance": dfile}
                o = {"sup": lambda: SupervisedOPF(**kwf), "semi": lambda: SemiSupervisedOPF(**kwf),
                     "unsup": lambda: UnsupervisedOPF(min_k=1, max_k=3, **kwf)}[kind]()
                o.pre_distances = M
                res.hit("constructed_from_file_then_setter")
            elif pre:
                o.pre_computed_distance = True; o.pre_distances = M
            elif case % 3 == 1 and Xt.dtype == np.float64:
                # a model that holds a matrix (read from a file at construction) but was switched to its metric through the
                # public flag before training: flag and matrix are independent state, both must come back as saved
                dfile2 = os.path.join(tmp, f"held{case % 3}.csv")
                np.savetxt(dfile2, np.array([[rng.uniform(0.5, 9.0) for _ in range(len(X))] for _ in range(len(X))]), delimiter=",")
                kwh = {"distance": metric, "pre_computed_distance": dfile2}
                o = {"sup": lambda: SupervisedOPF(**kwh), "semi": lambda: SemiSupervisedOPF(**kwh),
                     "knn": lambda: KNNSupervisedOPF(max_k=2, **kwh), "unsup": lambda: UnsupervisedOPF(min_k=1, max_k=3, **kwh)}[kind]()
                o.pre_computed_distance = False
                res.hit("matrix_held_flag_off")
            It, Iu, Iq = np.arange(n), np.arange(n, n + 2), np.arange(n + 2, n + 6)
            if kind == "sup":
                o.fit(Xt, Y, I_train=It if pre else None); pq = lambda m: m.predict(Q, I_val=Iq if pre else None)  # noqa
            elif kind == "semi":
                o.fit(Xt, Y, Xu, I_train=It if pre else None); pq = lambda m: m.predict(Q, I_val=(Iq if pre else None))  # noqa
            elif kind == "knn":
                o.fit(Xt, Y, Q, np.array([0, 1, 0, 1]), None, None); pq = lambda m: m.predict(Q)  # noqa
            else:
                o.fit(Xt, Y, I_train=It if pre else None)
                o.propagate_labels(); pq = lambda m: m.predict(Q, I_val=(Iq if pre else None))  # noqa
            if kind in ("knn", "unsup") and case % 3 == 2:
                # the fitted subgraph used through its public methods before saving (a larger k explored by hand)
                try:
                    o.subgraph.create_arcs(min(n - 1, 4), dist.DISTANCES[metric], False, None)
                    res.hit("arcs_recreated_before_save")
                except Exception:
                    pass
            p0 = pq(o)
            s0 = model_state(o)
            # a path that is written again and again / names that differ only after their last dot
            path = ("model.pkl" if case % 8 == 0 else os.path.join(tmp, "model.pkl")) if case % 4 == 0 else os.path.join(tmp, (f"m{case}.pkl" if case % 4 == 1 else f"forest.run{case % 2}.v{case}"))
            if not os.path.isabs(path):
                res.hit("bare_file_name_in_cwd")       # a file name without a directory part, in the working directory
            sib = None
            if case % 4 >= 2:
                sib = last_dotted.get(case % 2)      # the previous model saved under the same stem, another suffix
                last_dotted[case % 2] = path
                res.hit("dotted_names")
            o.save(path)
            s0b = model_state(o)
            s1 = model_state(o)
            p1 = pq(o)
            if dfile is not None:
                np.savetxt(dfile, np.array([[rng.uniform(0.5, 9.0) for _ in range(len(X))] for _ in range(len(X))]), delimiter=",")
            fresh = {"sup": SupervisedOPF, "semi": SemiSupervisedOPF, "knn": KNNSupervisedOPF, "unsup": UnsupervisedOPF}[kind]()
            fresh.load(path)
            s2 = model_state(fresh)
            p2 = pq(fresh)
            # the receiver is "a freshly constructed model of the same kind": however it was constructed (another metric,
            # its own pre-computed distance file), after load it must be the saved model
            if case % 2 == 1:
                other = os.path.join(tmp, f"other{case}.csv")
                R = np.array([[rng.uniform(0.5, 9.0) for _ in range(len(X))] for _ in range(len(X))])
                np.savetxt(other, R, delimiter=",")
                cls3 = type(fresh)
                kw3 = {"distance": rng.choice(names), "pre_computed_distance": other}
                fresh3 = cls3(max_k=2, **kw3) if kind == "knn" else (cls3(min_k=1, max_k=3, **kw3) if kind == "unsup" else cls3(**kw3))
                fresh3.load(path)
                p3 = pq(fresh3)
                bad = []
                if bool(fresh3.pre_computed_distance) != bool(o.pre_computed_distance):
                    bad.append(f"pre_computed_distance={fresh3.pre_computed_distance} (saved: {o.pre_computed_distance})")
                if (fresh3.pre_distances is None) != (o.pre_distances is None) or \
                        (o.pre_distances is not None and np.asarray(fresh3.pre_distances).tobytes() != np.asarray(o.pre_distances).tobytes()):
                    bad.append("pre_distances differ from the saved model's")
                if fresh3.distance != o.distance or fresh3.distance_fn is not dist.DISTANCES[metric]:
                    bad.append(f"distance={fresh3.distance}")
                if model_state(fresh3) != s0b:
                    bad.append("forest state differs")
                if repr(p3) != repr(p0):
                    bad.append(f"predictions {p3} vs {p0}")
                if bad:
                    viol(f"{kind}/{metric}: loaded into a model constructed with another metric and its own distance file: {bad[:3]}", meta)
                    if fresh3.distance_fn is not dist.DISTANCES[metric]:
                        res.violations.append({"property": "C06", "what": f"after load the model reports distance={fresh3.distance!r} but its "
                                               f"distance_fn is not DISTANCES[{metric!r}] (the identifier does not resolve to its function)", "replay": meta})
                    if repr(p3) != repr(p0) and kind in ("sup", "semi"):
                        res.violations.append({"property": "C03", "what": f"{kind}/{metric}: the re-loaded classifier predicts {p3}, the saved one {p0}: "
                                               f"prediction does not minimise over the model's own metric", "replay": meta})
                    if repr(p3) != repr(p0) and kind in ("knn", "unsup"):
                        res.violations.append({"property": "C14", "what": f"{kind}/{metric}: the re-loaded model predicts {p3}, the saved one {p0}: "
                                               f"the scan does not use the model's metric", "replay": meta})
                res.hit("receiver_with_own_options")
            if pre and (np.asarray(fresh.pre_distances).tobytes() != np.asarray(M).tobytes()):
                viol(f"{kind}/{metric}: the re-loaded model's pre-computed matrix differs from the saved one", meta)
            if sib is not None and sib in saved_states:
                chk = type(saved_states[sib][0])()
                chk.load(sib)
                if model_state(chk) != saved_states[sib][1]:
                    viol(f"loading {os.path.basename(sib)!r} returns another model after {os.path.basename(path)!r} was saved "
                         f"(two file names map to one file)", meta)
            saved_states[path] = (fresh, s0b)
            # a second load of the same file must give an independent object with the saved state
            fresh2 = type(fresh)()
            fresh2.load(path)
            if model_state(fresh2) != s0b:
                viol(f"{kind}/{metric}: a second load of the same file differs from the saved state (loads share or cache state)", meta)
        except Exception as ex:
            viol(f"{kind}/{metric}: {type(ex).__name__}: {ex}", meta)
            continue
        msgs = []
        if s1 != s0 or repr(p1) != repr(p0):
            msgs.append(f"{kind}/{metric}: saving altered the original model")
        diff = [k for k in s0 if s0[k] != s2.get(k)]
        if diff:
            msgs.append(f"{kind}/{metric}: re-loaded model state differs in {diff}")
        if fresh.distance_fn is not dist.DISTANCES[metric]:
            msgs.append(f"{kind}/{metric}: re-loaded model's distance function is not the registered {metric}")
        if repr(p2) != repr(p0):
            msgs.append(f"{kind}/{metric}: re-loaded model predicts {p2}, original {p0}")
        viol(msgs, meta)
        line = f"persist {kind} {metric} pre={int(pre)} n={n} d={d}"
        res.add_case(line + str(case), nontrivial=True)
        res.hit("persist_" + kind); res.hit("persist_pre" if pre else "persist_features")
        if case < 2:
            res.samples.append({"case": line, "predictions": repr(p0)[:120]})
    os.chdir(cwd0)
    shutil.rmtree(tmp, ignore_errors=True)
    return res
