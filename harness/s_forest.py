"""streams `prim`, `fit` (supervised + semi-supervised, with the prediction pass): real
`SupervisedOPF` / `SemiSupervisedOPF` driven through pre-computed matrices (every tie pattern)
and through real metrics on features, against the Lean models L1-L3; oracles for C01-C04, C15, C17."""
from common import *  # noqa
import oracles as O


def gen_matrix(rng, U, kind):
    M = np.zeros((U, U))
    if kind == "real":
        vals = rng.sample(range(1, 50 * U * U + 10), U * U)
        it = iter(vals)
        for a in range(U):
            for b in range(a + 1, U):
                M[a][b] = M[b][a] = next(it) / 7.0
        return M
    if kind == "distinct":
        vals = rng.sample(range(1, 4 * U * U + 10), U * U)
        it = iter(vals)
        for a in range(U):
            for b in range(a + 1, U):
                M[a][b] = M[b][a] = float(next(it))
        return M
    if kind in ("near", "tinyscale"):
        # nearly tied weights (differences ~1e-7 relative) / dissimilarities that are tiny in absolute terms
        base = rng.choice([1.0, 3.0]) if kind == "near" else 1e-9
        step = 1e-7 if kind == "near" else 1e-10
        vals = rng.sample(range(0, 6 * U * U + 10), U * U)
        it = iter(vals)
        for a in range(U):
            for b in range(a + 1, U):
                M[a][b] = M[b][a] = base + step * next(it) * (1 if rng.random() < 0.8 else 1000)
        return M
    if kind == "near10":
        # tie-FREE weights whose relative differences are far below any sensible tolerance (1e-10 … 1e-13)
        base = rng.choice([1.0, 2.0, 1e3])
        vals = rng.sample(range(1, 40 * U * U + 10), U * U)
        it = iter(vals)
        for a in range(U):
            for b in range(a + 1, U):
                M[a][b] = M[b][a] = base * (1.0 + next(it) * rng.choice([1e-10, 1e-12, 4e-13]))
        return M
    if kind == "huge":
        # finite dissimilarities far above the single-precision range (a squared distance of features ~1e25, a penalty of 1e300)
        vals = rng.sample(range(1, 9 * U * U + 10), U * U)
        it = iter(vals)
        for a in range(U):
            for b in range(a + 1, U):
                M[a][b] = M[b][a] = float(next(it)) * rng.choice([1e39, 1e120, 1e300 / (9 * U * U + 10)])
        return M
    if kind == "subeps":
        # every dissimilarity below 1e-20 (distinct): comparisons are still exact
        vals = rng.sample(range(1, 9 * U * U + 10), U * U)
        it = iter(vals)
        for a in range(U):
            for b in range(a + 1, U):
                M[a][b] = M[b][a] = float(next(it)) * 1e-24
        return M
    alpha = {"a1": [3], "a2": [1, 2], "a3": [1, 2, 3], "an": list(range(1, U + 1)),
             "zero": [0, 1, 2], "asym": [1, 2, 3, 4, 5]}[kind]
    for a in range(U):
        for b in range(a + 1, U):
            M[a][b] = M[b][a] = float(rng.choice(alpha))
            if kind == "asym":
                M[b][a] = float(rng.choice(alpha))
    return M


def forest_obs(sg, n):
    nd = sg.nodes
    return (f"{ints(1 if nd[i].status == 1 else 0 for i in range(n))} | {ints(enc(nd[i].cost) for i in range(n))} | "
            f"{ints(nd[i].pred for i in range(n))} | {ints(nd[i].predicted_label for i in range(n))} | "
            f"{ints(nd[i].label for i in range(n))} | {ints(sg.idx_nodes)}")


def gen_labels(rng, n):
    K = rng.choice([1, 2, 2, 2, 3, 3, 4])
    lab = [rng.randrange(K) for _ in range(n)]
    if K >= 2 and len(set(lab)) < 2 and n >= 2 and rng.random() < 0.9:
        lab[rng.randrange(n)] = (lab[0] + 1) % K
    if rng.random() < 0.15:
        # class identifiers need not be small: equal classes are equal numbers, whatever objects hold them
        big = sorted(rng.sample([256, 257, 300, 1000, 2000, 65536, 100000, 2 ** 31 - 1], 4))
        lab = [big[c] for c in lab]
    return lab


BOOST = int(os.environ.get("VERIF_BOOST", "1"))


def run(rng, tier, res=None, want=("prim", "fit", "semi")):
    load_opfython()
    from opfython.core.subgraph import Subgraph
    from opfython.models.supervised import SupervisedOPF
    from opfython.models.semi_supervised import SemiSupervisedOPF
    res = res or Result("forest")
    scale = BOOST if tier == "quick" else 12
    nmax = 12 if tier == "quick" else 22
    lines, obs, metas = [], [], []

    kinds = ["a1", "a2", "a2", "a3", "a3", "an", "an", "distinct", "distinct", "real", "real", "zero", "asym",
             "near", "near", "tinyscale", "near10", "near10", "huge", "subeps"]

    def viol(prop, msgs, meta):
        for m in msgs[:3]:
            res.violations.append({"property": prop, "what": m, "replay": meta})

    # ---------------- prim ----------------
    for case in range(250 * scale if "prim" in want else 0):
        n = rng.choice([1, 2, 3, 4, 5, 6, 6, 7, 8, 10, nmax])
        kind = rng.choice(kinds)
        extra = rng.choice([0, 0, 2])
        U = n + extra
        M = gen_matrix(rng, U, kind)
        I = sorted(rng.sample(range(U), n)) if extra and rng.random() < 0.8 else None
        if I is not None:
            rng.shuffle(I)
        lab = gen_labels(rng, n)
        idx = I if I is not None else list(range(n))
        o = SupervisedOPF(distance="euclidean")
        o.pre_computed_distance = True
        o.pre_distances = M
        X = np.zeros((n, 1)); Y = np.array(lab, dtype=int)
        o.subgraph = Subgraph(X, Y, I=(np.array(I) if I is not None else None))
        import opfython.models.supervised as _S
        removed = []

        class _RecHeap(_S.Heap):
            def remove(self, _r=removed):
                v = super().remove()
                if v is not False:
                    _r.append(v)
                return v
        _orig_heap = _S.Heap
        _S.Heap = _RecHeap
        try:
            o._find_prototypes()
        finally:
            _S.Heap = _orig_heap
        w = [[enc(M[idx[p]][idx[q]]) for q in range(n)] for p in range(n)]
        line = f"prim {n} {TOP} {ints(lab)} {ints(v for r in w for v in r)}"
        ob = forest_obs(o.subgraph, n) + " | 1"
        lines.append(line); obs.append(ob)
        meta = {"stream": "prim", "n": n, "kind": kind, "labels": lab, "I": I, "M": M.tolist(), "caseid": f"prim{case}", "tier": "A"}
        metas.append(meta)
        # tier B: the real removal order of Prim replayed through the relational semantics
        ndp = o.subgraph.nodes
        lines.append(f"lawprim {n} {TOP} {ints(lab)} {ints(v for r in w for v in r)} {len(removed)} {ints(removed)}")
        obs.append(f"lawful 1 | {ints(ndp[i].pred for i in range(n))} | {ints(1 if ndp[i].status == 1 else 0 for i in range(n))}")
        metas.append({"stream": "lawprim", "caseid": f"prim{case}", "tier": "B"})
        ties = len({M[idx[p]][idx[q]] for p in range(n) for q in range(p + 1, n)}) < n * (n - 1) // 2
        res.add_case(line, nontrivial=(n >= 3 and len(set(lab)) >= 2))
        res.hit("prim_" + kind); res.hit("prim_ties" if ties else "prim_tiefree")
        if case < 1:
            res.samples.append({"input": line[:300], "impl": ob[:300]})
        if kind != "asym" and n >= 2:
            nd = o.subgraph.nodes
            viol("C02", O.check_prototypes(n, lambda a, b: M[idx[a]][idx[b]], lab,
                                           [nd[i].status == 1 for i in range(n)], [nd[i].pred for i in range(n)]), meta)

    try:
        import json as _json
        corpus = _json.load(open(os.path.join(VERIF, "corpus", "fit.json")))["cases"] if "fit" in want else []
    except Exception:
        corpus = []
    # ---------------- fit (+predict), supervised and semi ----------------
    for case in range((450 * scale) if ("fit" in want or "semi" in want) else 0):
        semi = ("semi" in want) and (("fit" not in want) or rng.random() < 0.4)
        nLab = rng.choice([2, 3, 4, 5, 6, 7, 8, 10, nmax])
        nU = rng.choice([0, 0, 1, 2, 3, 5]) if semi else 0
        n = nLab + nU
        nq = rng.choice([0, 1, 2, 4, 6])
        kind = rng.choice(kinds)
        extra = rng.choice([0, 0, 3])
        U = n + nq + extra
        M = gen_matrix(rng, U, kind)
        lab = gen_labels(rng, nLab)
        if len(set(lab)) < 2:
            nq = 0      # single class: no prototypes; predict raises IndexError (outside every property)
            res.hit("single_class")
        if semi and extra > 0 and rng.random() < 0.6:
            # labeled rows anywhere in the matrix except the positions nLab..n-1, which the library assigns to the unlabeled samples
            pool = [t for t in range(U) if not (nLab <= t < n)]
            I = rng.sample(pool, nLab); idx = list(I) + list(range(nLab, n))
        elif semi or extra == 0 or rng.random() < 0.3:
            I = None; idx = list(range(n))
        else:
            I = rng.sample(range(U), nLab); idx = list(I)
        # queries: anywhere in the universe, including training positions (query == training sample)
        Iq = [rng.randrange(U) if rng.random() < 0.5 else rng.choice(idx) for _ in range(nq)]
        X = np.zeros((nLab, 1)); Y = np.array(lab, dtype=int)
        cc = corpus[case] if (case < len(corpus) and not semi) else None
        if cc is not None:
            # corpus case (witness of a past seeded change): fixed features, euclidean metric
            lab = list(cc["Y"]); nLab = len(lab); nU = 0; n = nLab; nq = len(cc["Q"]); U = n + nq
            Y = np.array(lab, dtype=int); kind = "corpus"; res.hit("corpus_case")
        try:
            feature_mode = (rng.random() < 0.3) or cc is not None
            if feature_mode:
                # real metric evaluated on features (incl. asymmetric ones: argument orientation matters)
                import opfython.math.distance as _dist
                metric = rng.choice(["euclidean", "log_squared_euclidean", "manhattan", "pearson", "neyman",
                                     "kullback_leibler", "chi_squared", "canberra", "squared_chord", "jaccard"])
                fn = _dist.DISTANCES[metric]
                dd = rng.choice([1, 2, 3])
                lattice = rng.random() < 0.5
                zeros_ok = metric not in ("squared_chord",) or True
                pts = [[float(rng.randint(0, 3)) if lattice else rng.choice([rng.uniform(0.2, 4.0), rng.uniform(0.2, 4.0), 0.0])
                        for _ in range(dd)] for _ in range(U)]
                sparse = cc is None and not lattice and rng.random() < 0.3
                if sparse:
                    # sparse histograms / counts: several samples share exact zeros in the same coordinate, tie-free otherwise;
                    # metrics whose terms are ratios guarded against a zero denominator
                    metric = rng.choice(["canberra", "canberra", "chi_squared", "squared_chord"]); fn = _dist.DISTANCES[metric]
                    dd = rng.choice([4, 5, 6])
                    pts = [[0.0 if rng.random() < 0.5 else rng.uniform(0.5, 9.0) for _ in range(dd)] for _ in range(U)]
                    res.hit("sparse_features")
                P_ = np.array(pts)
                if cc is None and not lattice and not sparse and rng.random() < 0.3:
                    # double-precision coordinates with a large common offset (time stamps, sensor counters): differences
                    # between samples are exact in doubles and far below single-precision resolution
                    P_ = P_ + rng.choice([float(2 ** 25), 1e9, 1.7e9])
                    res.hit("offset_features")
                if cc is not None:
                    metric = "euclidean"; fn = _dist.DISTANCES[metric]
                    P_ = np.array([[float(v) for v in r] for r in (cc["X"] + cc["Q"])]); dd = P_.shape[1]
                I = None; idx = list(range(n))
                Iq = [n + t if n + t < U else rng.randrange(U) for t in range(nq)]
                if nq and rng.random() < 0.5:
                    Iq[0] = rng.randrange(n)
                X = P_[:nLab].copy(); XU = P_[nLab:n].copy(); Q = P_[Iq].copy() if nq else np.zeros((0, dd))
                rows = [P_[a] for a in range(U)]
                if cc is None and not lattice and rng.random() < 0.25:
                    # single-precision datasets (every metric, the non-compiled one included, then returns float32 values)
                    P_ = P_.astype(np.float32)
                    X = P_[:nLab].copy(); XU = P_[nLab:n].copy(); Q = P_[Iq].copy() if nq else np.zeros((0, dd), dtype=np.float32)
                    rows = [P_[a] for a in range(U)]
                    res.hit("float32_features")
                if cc is None and lattice and metric in ("euclidean", "manhattan", "log_squared_euclidean") and rng.random() < 0.5:
                    # integer-typed training matrix (grid / count features) with fractional unlabeled samples and queries:
                    # every sample competes from the coordinates the caller gave, whatever the dtype of the other arrays
                    X = X.astype(np.int64)
                    if semi and nU:
                        XU = XU + np.array([[rng.choice([0.0, 0.25, 0.5, 0.9]) for _ in range(dd)] for _ in range(nU)])
                    rows = [X[a] if a < nLab else (XU[a - nLab] if a < n else P_[a]) for a in range(U)]
                    Q = np.array([np.asarray(rows[t], dtype=float) for t in Iq]) if nq else np.zeros((0, dd))
                    res.hit("mixed_dtype_features")
                M = np.array([[float(fn(rows[a].copy(), rows[b].copy())) for b in range(U)] for a in range(U)])
                Xb, XUb, Qb = X.tobytes(), XU.tobytes(), Q.tobytes()
                kind = "feat_" + metric
                o = (SemiSupervisedOPF if semi else SupervisedOPF)(distance=metric)
                # identifiers are irrelevant when the metric is evaluated on features: any distinct ids, including ones the
                # library will also hand to the unlabeled samples (nLab..n-1), must give the same forest
                It = np.array(rng.sample(range(0, n + 3), nLab)) if (cc is None and rng.random() < 0.4) else None
                if It is not None:
                    res.hit("feature_mode_with_index_array")
                if cc is None and rng.random() < 0.25:
                    # the object once held a matrix (constructor file / setters) and was switched back to its metric
                    o.pre_computed_distance = True
                    o.pre_distances = gen_matrix(rng, max(U, n + 2), rng.choice(["a3", "real", "an"]))
                    if rng.random() < 0.5:
                        try:
                            o.fit(np.zeros((nLab, 1)), Y.copy(), *( [np.zeros((nU, 1))] if semi else [] ))
                        except Exception:
                            pass
                    o.pre_computed_distance = False
                    res.hit("switched_back_from_matrix")
                if cc is None and rng.random() < 0.3:
                    # the object has a history: it was fitted (and used) on other data of the same size before
                    Xh = np.array([[rng.uniform(0.2, 4.0) for _ in range(dd)] for _ in range(nLab)])
                    Yh = np.array([lab[(t + 1) % nLab] for t in range(nLab)], dtype=int)
                    try:
                        if semi:
                            o.fit(Xh, Yh, np.array([[rng.uniform(0.2, 4.0) for _ in range(dd)] for _ in range(nU)]).reshape(nU, dd))
                        else:
                            o.fit(Xh, Yh)
                        if len(set(Yh.tolist())) >= 2:
                            o.predict(Xh[:2].copy())
                    except Exception:
                        pass
                    res.hit("refit_same_object_features")
                if semi:
                    o.fit(X, Y, XU, I_train=It)
                else:
                    o.fit(X, Y, I_train=It)
                Mbytes = M.tobytes()
            else:
                if semi:
                    o = SemiSupervisedOPF(distance="euclidean")
                else:
                    o = SupervisedOPF(distance="euclidean")
                o.pre_computed_distance = True
                if rng.random() < 0.3:
                    # the object has a history: fitted and used on another matrix (same number of samples) before
                    try:
                        o.pre_distances = gen_matrix(rng, U, rng.choice(["a3", "real", "an"]))
                        Yh = np.array([lab[(t + 1) % nLab] for t in range(nLab)], dtype=int)
                        if semi:
                            o.fit(X, Yh, np.zeros((nU, 1)), I_train=(np.array(I) if I is not None else None))
                        else:
                            o.fit(X, Yh, I_train=(np.array(I) if I is not None else None))
                        if len(set(Yh.tolist())) >= 2:
                            o.predict(np.zeros((1, 1)), I_val=np.array([rng.randrange(U)]))
                    except Exception:
                        pass
                    res.hit("refit_same_object_matrix")
                o.pre_distances = M
                Mbytes = M.tobytes()
                if semi:
                    o.fit(X, Y, np.zeros((nU, 1)), I_train=(np.array(I) if I is not None else None))
                else:
                    o.fit(X, Y, I_train=(np.array(I) if I is not None else None))
        except Exception as ex:
            if len(set(lab)) >= 2:
                viol("C15" if semi else "C01", [f"fit raised {type(ex).__name__}: {ex}"], {"stream": "fit", "labels": lab, "kind": kind})
            continue
        fobs = forest_obs(o.subgraph, n)
        if semi and nU == 0 and not feature_mode:
            # C15: with an empty unlabeled set the result is identical to supervised training on the labeled set
            try:
                sup = SupervisedOPF(distance="euclidean"); sup.pre_computed_distance = True; sup.pre_distances = M
                sup.fit(X, Y, I_train=(np.array(I) if I is not None else None))
                fs = forest_obs(sup.subgraph, n)
                sa_, sb_ = fs.split(" | "), fobs.split(" | ")
                # the true-label field is excluded: semi-supervised training overwrites it with the propagated label
                # (mirrored by the model, see DESIGN §4 observations); the forest itself must be identical
                if [u for k_, u in enumerate(sa_) if k_ != 4] != [v for k_, v in enumerate(sb_) if k_ != 4]:
                    names_ = ["prototypes", "costs", "predecessors", "assigned labels", "true-label field", "order"]
                    viol("C15", [f"empty unlabeled set: semi-supervised differs from supervised training in "
                                 f"{[nm for nm, u, v in zip(names_, sa_, sb_) if u != v]}"], {"stream": "semi", "labels": lab, "M": M.tolist(), "I": I})
                res.hit("c15_empty_vs_supervised")
            except Exception as ex:
                res.notes.append(f"c15 empty-vs-supervised skipped: {type(ex).__name__}")
        nd = o.subgraph.nodes
        proto = [nd[i].status == 1 for i in range(n)]
        cost = [nd[i].cost for i in range(n)]
        pred = [nd[i].pred for i in range(n)]
        plabel = [nd[i].predicted_label for i in range(n)]
        order = list(o.subgraph.idx_nodes)
        preds = []
        feats_before = b"".join(nd[i].features.tobytes() for i in range(n))
        if nq:
            try:
                preds = o.predict(Q) if feature_mode else o.predict(np.zeros((nq, 1)), I_val=np.array(Iq))
            except Exception as ex:
                for pp in ("C03", "C15" if semi else "C01"):
                    viol(pp, [f"predict raised {type(ex).__name__}: {ex} on a fitted model (conquest order has {len(order)} of {n} samples)"],
                         {"stream": "fit", "labels": lab, "kind": kind, "M": M.tolist(), "I": I})
                continue
            if b"".join(nd[i].features.tobytes() for i in range(n)) != feats_before:
                viol("C09", ["predict modified the fitted model's stored features: later predictions depend on the call history"],
                     {"stream": "fit", "kind": kind})
        if feature_mode and not semi and rng.random() < 0.5:
            # C07: a fresh model fitted on equal data gives the identical forest, whatever was fitted in between
            other = SemiSupervisedOPF(distance=metric)
            Xo = np.array([[rng.uniform(0.2, 4.0) for _ in range(dd)] for _ in range(max(3, n))])
            Yo = np.array([t % 2 for t in range(len(Xo))], dtype=int)
            other.fit(Xo, Yo, Xo[:2].copy())
            again_m = SupervisedOPF(distance=metric)
            again_m.fit(X.copy(), Y.copy())
            if forest_obs(again_m.subgraph, n) != forest_obs(o.subgraph, n):
                viol("C07", [f"two fresh SupervisedOPF({metric}) fits on equal data differ after an unrelated fit in between"],
                     {"stream": "fit", "metric": metric, "X": X.tolist(), "Y": Y.tolist()})
            res.hit("c07_refit_after_other_fit")
        rel = [nd[i].relevant for i in range(n)]      # relevance marks of the batch prediction above (later calls add their own)
        if feature_mode and case % 6 == 0 and X.dtype == np.float64:
            # whatever the caller's matrices contain (a missing value, an overflowed reading), fit / predict leave them as they are
            Xn = X.copy(); Qn = (Q.copy() if nq else np.zeros((1, dd)))
            Xn[rng.randrange(nLab)][rng.randrange(dd)] = rng.choice([float("nan"), float("inf"), float("-inf")])
            Qn[0][rng.randrange(dd)] = rng.choice([float("nan"), float("inf")])
            xb_, qb_ = Xn.tobytes(), Qn.tobytes()
            try:
                on = SupervisedOPF(distance=metric); on.fit(Xn, Y.copy())
            except Exception:
                pass
            try:
                o.predict(Qn)
            except Exception:
                pass
            if Xn.tobytes() != xb_ or Qn.tobytes() != qb_:
                viol("C07", [f"fit/predict with metric {metric} rewrote non-finite entries of the caller's arrays"], {"stream": "fit", "metric": metric})
            res.hit("c07_nonfinite_entries_untouched")
        if feature_mode and case % 6 == 3 and metric in ("canberra", "chi_squared", "jaccard") and X.dtype == np.float64:
            # non-native byte order (data read from a big-endian file): a legitimate numpy array, to be left as it is
            Xe = X.astype(">f8"); Qe = (Q if nq else np.ones((1, dd))).astype(">f8")
            xe_, qe_ = Xe.tobytes(), Qe.tobytes()
            try:
                oe = SupervisedOPF(distance=metric); oe.fit(Xe, Y.copy()); oe.predict(Qe); oe.predict(Qe)
            except Exception:
                pass
            if Xe.tobytes() != xe_ or Qe.tobytes() != qe_:
                viol("C07", [f"fit/predict with metric {metric} rewrote a big-endian feature matrix of the caller"], {"stream": "fit", "metric": metric})
            res.hit("c07_big_endian_untouched")
        if feature_mode and (X.tobytes() != Xb or XU.tobytes() != XUb or Q.tobytes() != Qb):
            viol("C07", [f"fit/predict with metric {metric} modified the caller's feature arrays"], {"stream": "fit", "metric": metric})
        # C09: the same samples alone, permuted, duplicated, after earlier calls
        if nq:
            msgs9 = []
            for i in range(nq):
                one = o.predict(Q[i:i + 1]) if feature_mode else o.predict(np.zeros((1, 1)), I_val=np.array([Iq[i]]))
                if one[0] != preds[i]:
                    msgs9.append(f"sample {i} predicted {preds[i]} in the batch but {one[0]} alone")
            perm = list(range(nq)); rng.shuffle(perm)
            again = o.predict(Q[perm]) if feature_mode else o.predict(np.zeros((nq, 1)), I_val=np.array([Iq[t] for t in perm]))
            for a, t in enumerate(perm):
                if again[a] != preds[t]:
                    msgs9.append(f"sample {t} predicted {preds[t]} at position {t} but {again[a]} at position {a} of a permuted batch")
            if not feature_mode and nq >= 2:
                # the same placeholder buffer OBJECT handed in again with other index arrays is another batch
                buf = np.zeros((nq, 1))
                first = o.predict(buf, I_val=np.array(Iq))
                rev = list(reversed(Iq))
                second = o.predict(buf, I_val=np.array(rev))
                if list(first) != list(preds) or list(second) != [preds[nq - 1 - t] for t in range(nq)]:
                    msgs9.append(f"the same array object passed twice with different index arrays: {list(first)} then {list(second)}, "
                                 f"fresh arrays give {list(preds)} and its reverse")
                res.hit("c09_same_buffer_other_indexes")
            if feature_mode and nq >= 1 and metric in ("euclidean", "log_squared_euclidean", "manhattan"):
                # a finite sample so far away that every arc weight overflows: its label cannot depend on what was predicted before it
                try:
                    farq = np.full((1, dd), 1e200); farq[0][0] = -1e200
                    alone = o.predict(farq.copy())
                    for t_ in range(min(nq, 3)):
                        both = o.predict(np.vstack([Q[t_:t_ + 1].astype(float), farq]))
                        if both[1] != alone[0]:
                            msgs9.append(f"a far sample is predicted {alone[0]} alone but {both[1]} after sample {t_} (predicted {both[0]})")
                            break
                    res.hit("c09_far_query_supervised")
                except Exception as ex:
                    msgs9.append(f"predict raised {type(ex).__name__} on a finite far sample")
            if feature_mode and nq >= 1 and not semi:
                # a plain list of rows edited between two calls is new data
                rows_l = [list(map(float, r_)) for r_ in Q]
                try:
                    p_a = o.predict(rows_l)
                    rows_l[0] = list(map(float, X[0]))
                    p_b = o.predict(rows_l)
                    p_c = o.predict(np.array(rows_l))
                    if list(p_b) != list(p_c):
                        msgs9.append(f"a list of rows edited between two predict calls gives {list(p_b)}, a fresh array with the same rows {list(p_c)}")
                    res.hit("c09_edited_list")
                except Exception:
                    pass
            if feature_mode and nq >= 1:
                # the same ndarray OBJECT handed in twice, its contents replaced in place in between, is new data
                try:
                    bufq = np.array(Q, dtype=float).copy()
                    o.predict(bufq)
                    import random as _random
                    r2_ = _random.Random(7919 * case + 13)      # a generator of its own: the main stream of cases is left as it was
                    Q2 = np.array(Q, dtype=float)[::-1].copy() if (nq >= 2 and r2_.random() < 0.5) else \
                        np.array([X[r2_.randrange(len(X))] for _ in range(nq)], dtype=float)
                    bufq[:] = Q2
                    p_b = o.predict(bufq)
                    p_c = o.predict(Q2.copy())
                    if list(p_b) != list(p_c):
                        m_ = (f"an array whose contents were replaced in place after an earlier predict call on the same array object gives "
                              f"{list(p_b)}, the same values in a new array {list(p_c)}: the result depends on the call history")
                        msgs9.append(m_)
                        viol("C07", [m_], {"stream": "fit", "metric": metric, "Q_first": np.array(Q).tolist(), "Q_second": Q2.tolist()})
                    res.hit("c09_same_buffer_new_contents")
                except Exception:
                    res.hit("c09_same_buffer_raised")
            viol("C09", msgs9, {"stream": "fit", "labels": lab, "Iq": Iq, "M": M.tolist(), "I": I})
            after = (forest_obs(o.subgraph, n), )
            if after[0] != fobs:
                viol("C09", ["predict changed the fitted forest (cost/pred/label/order)"], {"stream": "fit"})
            res.hit("c09_sup_checked")
        if M.tobytes() != Mbytes:
            viol("C07", ["pre-computed matrix modified by fit/predict"], {"stream": "fit"})
        w = [[enc(M[idx[p]][idx[q]]) for q in range(n)] for p in range(n)]
        dm = [[enc(M[idx[t]][Iq[i]]) for t in range(n)] for i in range(nq)]
        lab_all = lab + [0] * nU
        line = (f"fit {1 if semi else 0} {nLab} {n} {TOP} {ints(lab_all)} {ints(v for r in w for v in r)} "
                f"{nq} {ints(v for r in dm for v in r)}")
        ob = f"{fobs} | 1 | {ints(preds)} | {ints(rel)}"
        lines.append(line); obs.append(ob)
        meta = {"stream": "semi" if semi else "fit", "nLab": nLab, "nU": nU, "kind": kind, "labels": lab,
                "I": I, "Iq": Iq, "M": M.tolist(), "caseid": f"fit{case}", "tier": "A", "classes": len(set(lab))}
        metas.append(meta)
        # prediction pass modelled on the IMPLEMENTATION's fitted forest (independent of how it was fitted)
        if nq:
            pline = (f"predict {n} {ints(enc(c) for c in cost)} {ints(plabel)} {ints(pred)} {len(order)} {ints(order)} "
                     f"{nq} {ints(v for r in dm for v in r)}")
            lines.append(pline); obs.append(f"{ints(preds)} | {ints(rel)}")
            metas.append({"stream": "predict", "caseid": f"fit{case}", "labels": lab, "I": I, "Iq": Iq, "M": M.tolist()})
        # tier B: replay the real conquest order through the relational semantics (lawful-run acceptance)
        if len(set(lab)) >= 2:
            lline = (f"lawfit {n} {TOP} {ints(1 if x else 0 for x in proto)} {ints(lab_all)} {ints(v for r in w for v in r)} "
                     f"{ints([-1] * n)} {ints([0] * n)} {len(order)} {ints(order)}")
            lob = f"lawful 1 | {ints(enc(c) for c in cost)} | {ints(pred)} | {ints(plabel)}"
            lines.append(lline); obs.append(lob)
            metas.append({"stream": "lawfit", "caseid": f"fit{case}", "tier": "B"})
        res.add_case(line, nontrivial=(n >= 3 and len(set(lab)) >= 2))
        res.hit(("semi_" if semi else "fit_") + kind)
        if case < 2:
            res.samples.append({"input": line[:300], "impl": ob[:300]})
        # ---- oracles on the implementation's outputs ----
        symmetric_w = all(M[idx[a]][idx[b]] == M[idx[b]][idx[a]] for a in range(n) for b in range(n))
        if len(set(lab)) >= 2 and not symmetric_w:
            # C03 does not need symmetry: check the prediction rule with the train-first orientation d(t, x)
            for i in range(nq):
                d = [M[idx[t]][Iq[i]] for t in range(n)]
                viol("C03", O.check_predict(n, cost, plabel, d, preds[i]), meta)
            res.hit("c03_asymmetric_checked")
        if symmetric_w and len(set(lab)) >= 2:
            wf = lambda a, b: M[idx[a]][idx[b]]  # noqa
            true_lab = lab_all
            msgs = O.check_forest(n, wf, true_lab, proto, cost, pred, plabel, order)
            if semi:
                if any(proto[t] for t in range(nLab, n)):
                    for pp_ in ("C02", "C15"):      # C15: the prototypes of the semi-supervised forest come from the labeled samples
                        viol(pp_, [f"unlabeled samples {[t for t in range(nLab, n) if proto[t]]} were selected as prototypes"], meta)
                if nLab <= 6:
                    sets = O.mst_boundary_sets(nLab, wf, lab)
                    if sets is not None and frozenset(t for t in range(nLab) if proto[t]) not in sets:
                        for pp_ in ("C02", "C15"):
                            viol(pp_, [f"semi-supervised prototypes {[t for t in range(n) if proto[t]]} are not the class-boundary endpoints of an MST of the labeled samples"], meta)
                lab_field = [nd[i].label for i in range(n)]
                for t in range(n):
                    if not proto[t] and lab_field[t] != plabel[t]:
                        msgs.append(f"sample {t} carries label {lab_field[t]} but the prototype at the root of its path has true label {plabel[t]}")
            viol("C15" if semi else "C01", msgs, meta)
            if not semi:
                for s in range(n):
                    if proto[s] and (cost[s] != 0 or plabel[s] != lab[s]):
                        viol("C02", [f"prototype {s} lost cost 0 / own label"], meta)
            distinct = len({M[idx[p]][idx[q]] for p in range(n) for q in range(p + 1, n)}) == n * (n - 1) // 2 \
                and all(M[idx[p]][idx[q]] > 0 for p in range(n) for q in range(n) if p != q)
            if distinct and not semi:
                res.hit("c04_tiefree_case")
                if plabel != lab:
                    viol("C04", [f"assigned labels {plabel} != true labels {lab} on tie-free data"], meta)
            for i in range(nq):
                d = [M[idx[t]][Iq[i]] for t in range(n)]
                viol("C03", O.check_predict(n, cost, plabel, d, preds[i]), meta)
                if distinct and not semi and Iq[i] in idx and M[Iq[i]][Iq[i]] == 0:
                    t = idx.index(Iq[i])
                    res.hit("c04_predict_training_row")
                    if preds[i] != lab[t]:
                        viol("C04", [f"training sample {t} predicted {preds[i]}, true label {lab[t]}"], meta)
            # C17 relevance: closure of the scan's conquerors (first strict minimiser in conquest order)
            if nq and sorted(order) == list(range(n)):
                conqs = []
                for i in range(nq):
                    best = None; bc = None
                    for t in order:
                        v = max(cost[t], M[idx[t]][Iq[i]])
                        if best is None or v < best:
                            best, bc = v, t
                    conqs.append(bc)
                want_rel = O.relevant_closure(n, pred, conqs)
                if [bool(x) for x in rel] != want_rel:
                    viol("C17", [f"relevant flags {rel} != ancestor closure of conquerors {conqs}: {ints(want_rel)}"], meta)
                res.hit("relevance_checked")
    compare(res, lines, obs, metas)
    return res
