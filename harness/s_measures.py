"""stream `measures`: confusion_matrix / opf_accuracy / opf_accuracy_per_label / purity / normalize
against the Lean model L10 (Float instance, bit-exact for K < 8) and exact-rational oracles (C20)."""
from common import *  # noqa
from fractions import Fraction as F
import struct
import warnings
warnings.filterwarnings("ignore")


def fb(f):
    return struct.unpack("<Q", struct.pack("<d", float(f)))[0]


BOOST = int(os.environ.get("VERIF_BOOST", "1"))


def run(rng, tier, res=None):
    load_opfython()
    import opfython.math.general as G
    res = res or Result("measures")
    lines, obs, metas = [], [], []
    ncases = (500 * BOOST) if tier == "quick" else 8000

    def viol(msgs, meta):
        for m in (msgs if isinstance(msgs, list) else [msgs])[:3]:
            res.violations.append({"property": "C20", "what": m, "replay": meta})

    def acc_oracle(labels, preds, acc, meta):
        """1 - (1/2K) Σ_c [FP_c/(N-n_c) + FN_c/n_c], K = largest identifier + 1; a class absent from the labels has no
        false-negative term but keeps its false-positive rate; a class holding every sample has no false-positive term."""
        Kc = max(max(labels), max(preds)) + 1; Nn = len(labels)
        tot = F(0)
        for c in range(Kc):
            nc = labels.count(c)
            fp = sum(1 for l, p in zip(labels, preds) if l != p and p == c)
            fn = sum(1 for l, p in zip(labels, preds) if l != p and l == c)
            if Nn - nc > 0:
                tot += F(fp, Nn - nc)
            if nc > 0:
                tot += F(fn, nc)
        want = 1 - tot / (2 * Kc)
        if abs(float(want) - float(acc)) > 1e-12:
            viol(f"opf_accuracy {float(acc)!r} != {float(want)!r} = 1 - (1/2K) sum(FP/(N-n_c) + FN/n_c) with the classes absent from the labels "
                 f"keeping their false-positive rate", meta)
            res.violations.append({"property": "C17", "what": f"the accuracy `learn` ranks its iterations by is {float(acc)!r} for labels {labels[:12]} / "
                                   f"predictions {preds[:12]}; the OPF accuracy is {float(want)!r}", "replay": meta})
        res.hit("accuracy_oracle_general")

    for case in range(ncases):
        K = rng.choice([1, 2, 2, 3, 3, 4, 5, 6, 6, 17, 26, 40])
        n = rng.randint(max(1, K), max(30, 2 * K))
        if case % 25 == 7 and K <= 4:
            n = rng.choice([300, 600, 1000])     # hundreds of samples per (true, predicted) cell
        labels = [rng.randrange(K) for _ in range(n)]
        all_present = rng.random() < 0.8
        if all_present:
            pos = rng.sample(range(n), K)
            for c, p in enumerate(pos):
                labels[p] = c
        else:
            labels[rng.randrange(n)] = K - 1      # the largest class is present (defines n_class), others may be missing
        mode = rng.choice(["random", "perfect", "allwrong", "oneclass", "mostly", "outofrange"])
        if mode == "perfect":
            preds = list(labels)
        elif mode == "allwrong" and K >= 2:
            preds = [(l + 1 + rng.randrange(K - 1)) % K for l in labels]
        elif mode == "outofrange":
            preds = [rng.randrange(K + 2) for _ in range(n)]
        elif mode == "oneclass":
            preds = [rng.randrange(K)] * n
        elif mode == "mostly":
            preds = [l if rng.random() < 0.85 else rng.randrange(K) for l in labels]
        else:
            preds = [rng.randrange(K) for _ in range(n)]
        present = sorted(set(labels)) == list(range(K))
        meta = {"labels": labels, "preds": preds}
        dt = rng.choice([np.int64, np.int64, np.int32, np.int16, np.uint8, "list"])
        if dt == "list":
            La, Pa = list(labels), list(preds)
        else:
            La, Pa = np.array(labels, dtype=dt), np.array(preds, dtype=dt)
        res.hit("dtype_" + (dt if isinstance(dt, str) else np.dtype(dt).name))
        if max(preds) >= K:
            # predictions beyond the label range: only opf_accuracy is defined there (no crash, same formula)
            acc = G.opf_accuracy(La, Pa)
            acc_oracle(labels, preds, acc, meta)
            line = f"acc1 {n} {ints(labels)} {ints(preds)}"
            lines.append(line); obs.append(("TOL", [float(acc)])); metas.append(meta)   # n_class may reach 8: numpy sums pairwise there
            res.add_case(line, nontrivial=True); res.hit("preds_out_of_range")
            continue
        # class identifiers 1..K (native OPF numbering): the measures must leave the caller's vectors alone there too
        if dt != "list" and np.dtype(dt) != np.uint8 and case % 4 == 1:
            L1, P1 = La + 1, Pa + 1
            l1b, p1b = L1.tobytes(), P1.tobytes()
            try:
                G.opf_accuracy(L1, P1)
                G.purity(L1, P1)
                G.confusion_matrix(L1, P1)
            except Exception:
                pass
            if L1.tobytes() != l1b or P1.tobytes() != p1b:
                res.violations.append({"property": "C07", "what": "an evaluation measure modified the caller's label/prediction vectors "
                                       "(class identifiers 1..K)", "replay": meta})
            res.hit("one_based_labels")
        snap = (bytes(np.asarray(La).tobytes()), bytes(np.asarray(Pa).tobytes())) if dt != "list" else (list(La), list(Pa))
        try:
            cm = G.confusion_matrix(La, Pa)
            acc = G.opf_accuracy(La, Pa)
            pur = G.purity(La, Pa)
            if present:
                per = list(G.opf_accuracy_per_label(La, Pa))
            else:
                per = None
            now = (bytes(np.asarray(La).tobytes()), bytes(np.asarray(Pa).tobytes())) if dt != "list" else (list(La), list(Pa))
            if now != snap:
                res.violations.append({"property": "C07", "what": "an evaluation measure modified the caller's label/prediction vectors",
                                       "replay": meta})
        except Exception as ex:
            viol(f"evaluation measure raised {type(ex).__name__}: {ex} on in-range labels/predictions", meta)
            continue
        acc_oracle(labels, preds, acc, meta)
        line = f"acc {n} {ints(labels)} {ints(preds)}"
        cms = " , ".join(" ".join(str(int(v)) for v in row) for row in cm)
        if per is not None:
            ob = f"{cms} | {fb(acc)} | {ints(fb(v) for v in per)} | {fb(pur)}"
            if K >= 8:
                ob = ("TOLACC", cms, float(acc), [float(v) for v in per], float(pur))   # numpy sums >= 8 terms pairwise
            lines.append(line); obs.append(ob); metas.append(meta)
            res.add_case(line, nontrivial=(K >= 2 and n >= 3))
        res.hit("K%d" % K); res.hit("mode_" + mode); res.hit("all_classes_present" if present else "class_missing")
        if case < 2 and per is not None:
            res.samples.append({"input": line, "impl": str(ob)})
        # ---- oracle (exact rationals) ----
        if present:
            N = n
            msgs = []
            tot = F(0)
            for c in range(K):
                nc = labels.count(c)
                fp = sum(1 for l, p in zip(labels, preds) if l != p and p == c)
                fn = sum(1 for l, p in zip(labels, preds) if l != p and l == c)
                if N - nc > 0:
                    tot += F(fp, N - nc)
                tot += F(fn, nc)
                rec = 1 - F(fn, nc)
                if abs(float(rec) - per[c]) > 1e-12:
                    msgs.append(f"per-label accuracy of class {c} is {per[c]}, recall is {float(rec)}")
            want = 1 - tot / (2 * K)
            if abs(float(want) - acc) > 1e-12:
                msgs.append(f"opf_accuracy {acc} != 1 - (1/2K) sum(FP/(N-n_c) + FN/n_c) = {float(want)}")
            if not (-1e-12 <= acc <= 1 + 1e-12):
                msgs.append(f"opf_accuracy {acc} outside [0, 1]")
            if (acc == 1.0) != (labels == preds):
                msgs.append(f"opf_accuracy == 1 is {acc == 1.0} but all-correct is {labels == preds}")
            if cm.sum() != n or any(cm[a][b] != sum(1 for l, p in zip(labels, preds) if l == a and p == b)
                                    for a in range(K) for b in range(K)):
                msgs.append("confusion matrix does not count every (true, predicted) pair exactly once")
            pw = F(sum(max(sum(1 for l, p in zip(labels, preds) if l == a and p == b) for a in range(K)) for b in range(K)), n)
            if abs(float(pw) - pur) > 1e-12:
                msgs.append(f"purity {pur} != {float(pw)}")
            if not (0 < pur <= 1 + 1e-12):
                msgs.append(f"purity {pur} outside (0, 1]")
            pure = all(len({l for l, p in zip(labels, preds) if p == b}) <= 1 for b in range(K))
            if (pur == 1.0) != pure:
                msgs.append(f"purity == 1 is {pur == 1.0} but every predicted group single-class is {pure}")
            viol(msgs, meta)
    # normalize
    nlines, nobs = [], []
    for case in range(ncases // 5):
        n = rng.randint(2, 12); d = rng.randint(1, 4)
        A = np.array([[rng.choice([rng.gauss(0, 3), float(rng.randint(-3, 3))]) for _ in range(d)] for _ in range(n)])
        if rng.random() < 0.2:
            A[:, 0] = 2.5          # a constant column (std 0): outside the property's claim
        if rng.random() < 0.3:
            A[:, -1] *= rng.choice([1e-9, 1e-12, 1e6])   # non-constant columns on a very small / large scale
        offset_col = None
        if rng.random() < 0.25:
            # a column with a large common offset and a small spread (timestamps, sensor readings around 100000)
            offset_col = rng.randrange(d)
            A[:, offset_col] = rng.choice([1.7e9, 1.0e5, 3.0e7]) + np.array([float(rng.choice([0, 1, 2, 3, 9])) * rng.choice([1.0, 1e-3]) for _ in range(n)])
            A[0, offset_col] += 5.0 * (1.0 if rng.random() < 0.5 else 1e-3)
            res.hit("normalize_large_offset_column")
        out = G.normalize(A.copy())
        for j in range(d):
            col = [A[i][j] for i in range(n)]
            if len(set(col)) == 1:
                res.hit("normalize_constant_column")
                continue
            mean = sum(F(v) for v in col) / n
            var = sum((F(v) - mean) ** 2 for v in col) / n
            std_ = float(var) ** 0.5
            cond_ = 16 * 2.3e-16 * max(abs(v) for v in col) / std_      # what rounding of the mean alone can move an entry by
            for i in range(n):
                wv = float(F(col[i]) - mean) / std_
                if not (abs(out[i][j] - wv) <= 1e-9 * max(1, abs(wv)) + cond_):
                    viol(f"normalize: entry {out[i][j]} != (value - mean)/std = {wv}", {"column": col})
            if j == offset_col:
                continue        # oracle only: the bit-level model comparison is for well-conditioned columns
            line = f"norm {n} {ints(fb(v) for v in col)}"
            lines.append(line); obs.append(("TOL", [out[i][j] for i in range(n)])); metas.append({"column": col})
            res.add_case(line, nontrivial=True); res.hit("normalize_column")
        if offset_col is None:
            # the TRANSLATED normalize (Gen/NormImp.lean) on the whole matrix: which column's mean / deviation reaches which entry
            nlines.append(f"gnorm {n} {d} {ints(fb(float(A[i][j])) for i in range(n) for j in range(d))}")
            nobs.append((n, d, [[float(out[i][j]) for j in range(d)] for i in range(n)], [len({A[i][j] for i in range(n)}) == 1 for j in range(d)]))
            res.hit("gen_normalize_matrix")
    # ---------- the GENERATED counting parts (Gen/MeasImp.lean + Model/PyMeas.lean's reading of numpy) against the real functions ----------
    glines, gobs, gmetas = [], [], []

    def observe(fn, L, P):
        try:
            with np.errstate(all="ignore"):
                r = fn(np.array(L, dtype=np.int64), np.array(P, dtype=np.int64))
            return r
        except Exception:
            return None
    for case in range((300 * BOOST) if tier == "quick" else 4000):
        K = rng.choice([1, 2, 3, 3, 4, 5, 7])
        nl = rng.choice([0, 1, 2, 3, 5, 8, 12, 20]) if rng.random() < 0.3 else rng.randint(K, 3 * K + 4)
        kind = rng.choice(["dom", "dom", "missing", "short", "long", "neg", "beyond", "offset"])
        L = [rng.randrange(K) for _ in range(nl)]
        if kind in ("dom", "short", "long", "beyond") and nl >= K:
            for c_, p_ in enumerate(rng.sample(range(nl), K)):
                L[p_] = c_
        np_ = nl
        if kind == "short":
            np_ = max(0, nl - rng.randint(1, 2))
        elif kind == "long":
            np_ = nl + rng.randint(1, 3)
        P = [(L[i] if i < nl and rng.random() < 0.6 else rng.randrange(K)) for i in range(np_)]
        if kind == "neg" and nl and np_:
            tgt = L if rng.random() < 0.5 else P
            tgt[rng.randrange(len(tgt))] = -rng.randint(1, K)
        if kind == "beyond" and np_:
            P[rng.randrange(np_)] = K + rng.randrange(2)
        if kind == "offset":
            L = [v + 1 for v in L]; P = [v + 1 for v in P]
        cm = observe(G.confusion_matrix, L, P)
        ac = observe(G.opf_accuracy, L, P)
        pl = observe(G.opf_accuracy_per_label, L, P)
        pu = observe(G.purity, L, P)
        gl = f"gmeas {len(L)} {ints(L)} {len(P)} {ints(P)}".replace("  ", " ")
        glines.append(gl)
        gobs.append((None if cm is None else " , ".join(" ".join(str(int(v)) for v in row) for row in cm),
                     None if ac is None else float(ac), None if pl is None else [float(v) for v in pl],
                     None if pu is None else float(pu)))
        gmetas.append({"labels": L, "preds": P, "kind": kind})
        res.add_case(gl, nontrivial=(nl >= 2)); res.hit("gen_counting_" + kind)
        if cm is None:
            res.hit("gen_counting_raises")
    gmodel = run_driver(glines, driver="DriverGen.lean", soft=True)
    if gmodel is None:
        res.disagreements.append({"stream": "measures", "case": 0, "kind": "gmeas", "segments": [0, 1, 2, 3], "input": "(all)",
                                  "impl": "-", "model": "DriverGen.lean does not run: Gen/MeasImp.lean was not translated", "meta": {}})
    else:
        def dec(t):
            return struct.unpack("<d", struct.pack("<Q", int(t)))[0]

        def same(a, b):
            return (a != a and b != b) or a == b or abs(a - b) <= 1e-12
        for k, (l, a, b) in enumerate(zip(glines, gobs, gmodel)):
            sb = b.split(" | ")
            segs = []
            if len(sb) != 4:
                segs = [0, 1, 2, 3]
            else:
                if (a[0] if a[0] is not None else "ERR") != sb[0]:
                    segs.append(0)
                if (a[1] is None) != (sb[1] == "ERR") or (a[1] is not None and not same(a[1], dec(sb[1]))):
                    segs.append(1)
                if (a[2] is None) != (sb[2] == "ERR") or (a[2] is not None and (len(a[2]) != len(sb[2].split()) or
                                                                               not all(same(x, dec(t)) for x, t in zip(a[2], sb[2].split())))):
                    segs.append(2)
                if (a[3] is None) != (sb[3] == "ERR") or (a[3] is not None and not same(a[3], dec(sb[3]))):
                    segs.append(3)
            if segs:
                res.disagreements.append({"stream": "measures", "case": k, "kind": "gmeas", "segments": segs, "input": l,
                                          "impl": str(a)[:300], "model": b[:300], "meta": gmetas[k]})
    nmodel = run_driver(nlines, driver="DriverGen.lean", soft=True) if nlines else []
    if nmodel is None:
        res.disagreements.append({"stream": "measures", "case": 0, "kind": "gnorm", "segments": [0], "input": "(all)",
                                  "impl": "-", "model": "DriverGen.lean does not run: " + str(getattr(run_driver, "last_error", ""))[-400:], "meta": {}})
    else:
        for k, (l, (n_, d_, out_, const_), b) in enumerate(zip(nlines, nobs, nmodel)):
            toks = b.split()
            bad = (b == "ERR" or len(toks) != n_ * d_)
            if not bad:
                vals = [struct.unpack("<d", struct.pack("<Q", int(t)))[0] for t in toks]
                for i_ in range(n_):
                    for j_ in range(d_):
                        if const_[j_]:
                            continue          # std 0: nan / inf on both sides, outside the claim
                        x, y = out_[i_][j_], vals[i_ * d_ + j_]
                        if not (abs(x - y) <= 1e-9 * max(1.0, abs(x))):
                            bad = True
            if bad:
                res.disagreements.append({"stream": "measures", "case": k, "kind": "gnorm", "segments": [0], "input": l[:300],
                                          "impl": str(out_)[:300], "model": b[:300], "meta": {}})
    # compare (normalize with tolerance: numpy's mean/std use pairwise summation)
    model = run_driver(lines)
    for k, (l, a, b) in enumerate(zip(lines, obs, model)):
        if isinstance(a, tuple) and a[0] == "TOLACC":
            sb = b.split(" | ")
            def dec(t):
                return struct.unpack("<d", struct.pack("<Q", int(t)))[0]
            okk = (sb[0] == a[1] and abs(dec(sb[1]) - a[2]) <= 1e-12 and
                   len(sb[2].split()) == len(a[3]) and all(abs(dec(t) - v) <= 1e-12 for t, v in zip(sb[2].split(), a[3])) and
                   abs(dec(sb[3]) - a[4]) <= 1e-12)
            if not okk:
                res.disagreements.append({"stream": "measures", "case": k, "kind": "acc", "segments": [0, 1, 2, 3], "input": l,
                                          "impl": str(a)[:300], "model": b[:300], "meta": metas[k]})
        elif isinstance(a, tuple):
            vals = [struct.unpack("<d", struct.pack("<Q", int(t)))[0] for t in b.split()]
            if len(vals) != len(a[1]) or any(abs(x - y) > 1e-9 * max(1, abs(x)) for x, y in zip(a[1], vals)):
                res.disagreements.append({"stream": "measures", "case": k, "kind": "norm", "segments": [0], "input": l,
                                          "impl": str(a[1]), "model": str(vals), "meta": metas[k]})
        elif a != b:
            sa, sb = a.split(" | "), b.split(" | ")
            segs = [i for i in range(max(len(sa), len(sb))) if (sa[i] if i < len(sa) else None) != (sb[i] if i < len(sb) else None)]
            res.disagreements.append({"stream": "measures", "case": k, "kind": "acc", "segments": segs, "input": l,
                                      "impl": a, "model": b, "meta": metas[k]})
    return res
