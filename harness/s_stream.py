"""stream `stream`: split / split_with_index / merge / parse_loader / loaders / the three converters /
Subgraph(from_file=...) against the Lean model L9; oracles of C18 on the real outputs."""
from common import *  # noqa
import json
import shutil
import struct
import tempfile
from collections import Counter


def f32bits(v):
    return struct.unpack("<I", struct.pack("<f", float(v)))[0]


BOOST = int(os.environ.get("VERIF_BOOST", "1"))


def run(rng, tier, res=None):
    load_opfython()
    from opfython.stream import splitter, parser, loader
    from opfython.utils import converter
    from opfython.core.subgraph import Subgraph
    res = res or Result("stream")
    lines, obs, metas = [], [], []
    scale = BOOST if tier == "quick" else 10
    tmp = tempfile.mkdtemp(prefix="opfverif-stream-")

    def viol(msgs, meta):
        for m in (msgs if isinstance(msgs, list) else [msgs])[:3]:
            res.violations.append({"property": "C18", "what": m, "replay": meta})

    # ---------------- split / merge ----------------
    for case in range(250 * scale):
        n = rng.choice([1, 2, 3, 4, 5, 7, 10, 16, 25, 40])
        d = rng.randint(1, 4)
        X = np.array([[float(i)] + [rng.gauss(0, 1) for _ in range(d - 1)] for i in range(n)])
        K = rng.choice([1, 2, 3])
        Y = np.array([rng.randrange(K) for _ in range(n)], dtype=int)
        pct = rng.choice([0.0, 1.0, 0.5, 0.1, 0.9, rng.random(), rng.randint(0, n) / n, 0.7, 0.3, 0.29, 0.58])
        if case % 9 == 4:
            # products n*percentage that land a few ulps BELOW an integer in binary64 (the first set has floor of the product)
            n, pct = rng.choice([(90, 0.7), (170, 0.7), (180, 0.35), (100, 0.29), (100, 0.57), (100, 0.58), (50, 0.58), (150, 0.82)])
            d = 1
            X = np.array([[float(i)] for i in range(n)]); Y = np.array([rng.randrange(K) for _ in range(n)], dtype=int)
            res.hit("product_just_below_integer")
        seed = rng.choice([0, 0, 1, rng.randint(0, 10 ** 6), rng.randint(0, 10 ** 6), rng.randint(0, 2 ** 31 - 1)])
        np.random.seed(rng.randint(1, 10 ** 6))      # the result must not depend on the global RNG state before the call
        Xb, Yb = X.tobytes(), Y.tobytes()
        try:
            X1, X2, Y1, Y2, I1, I2 = splitter.split_with_index(X, Y, pct, seed)
            np.random.seed(rng.randint(1, 10 ** 6))
            again = splitter.split_with_index(X, Y, pct, seed)
            np.random.seed(rng.randint(1, 10 ** 6))
            X1b, X2b, Y1b, Y2b = splitter.split(X, Y, pct, seed)
            Xm, Ym = splitter.merge(X1, X2, Y1, Y2)
        except Exception as ex:
            viol(f"split/merge raised {type(ex).__name__}: {ex}", {"n": n, "percentage": pct, "seed": seed})
            continue
        # what the caller received is the caller's: editing it in place must not change what a later call returns
        if case % 3 == 0 and n >= 2:
            first = [np.array(a, copy=True) for a in (X1, X2, Y1, Y2, I1, I2)]
            I1s, I2s = np.array(I1, copy=True), np.array(I2, copy=True)
            try:
                I1.sort(); I2 += 1; Y1[...] = 7; X2[...] = -1.0
            except Exception:
                pass
            try:
                later = splitter.split_with_index(X, Y, pct, seed)
                later2 = splitter.split(X, Y, pct, seed)
            except Exception as ex:
                later = later2 = [np.zeros(0)] * 6
                res.violations.append({"property": "C18", "what": f"split raised {type(ex).__name__} after the caller edited the arrays an "
                                       f"earlier split returned", "replay": {"n": n, "percentage": pct, "seed": seed}})
            if any(np.asarray(a).tobytes() != np.asarray(b).tobytes() for a, b in zip(first, later)) or \
                    any(np.asarray(a).tobytes() != np.asarray(b).tobytes() for a, b in zip(first[:4], later2)):
                res.violations.append({"property": "C18", "what": "after the caller edited the arrays an earlier split returned, the same split "
                                       "(same data, percentage, seed) returns something else: not a function of the seed", "replay":
                                       {"n": n, "percentage": pct, "seed": seed}})
                res.violations.append({"property": "C07", "what": "split results depend on what the caller did to earlier results (shared state)",
                                       "replay": {"n": n, "percentage": pct, "seed": seed}})
            if X.tobytes() != Xb or Y.tobytes() != Yb:
                res.violations.append({"property": "C07", "what": "editing the arrays returned by split changed the caller's original data "
                                       "(the outputs alias the inputs)", "replay": {"n": n}})
                X = np.frombuffer(Xb, dtype=X.dtype).reshape(X.shape).copy(); Y = np.frombuffer(Yb, dtype=Y.dtype).copy()
            X1, X2, Y1, Y2, I1, I2 = first
            res.hit("split_after_caller_edit")
        np.random.seed(seed)
        perm = [int(v) for v in np.random.permutation(n)]
        halt = len(X1)
        meta = {"n": n, "percentage": pct, "seed": seed, "Y": Y.tolist()}
        line = f"split {n} {halt} {ints(perm)} {ints(Y)}"
        ob = (f"{ints(I1)} | {ints(X1[:, 0])} | {ints(Y1)} | {ints(I2)} | {ints(X2[:, 0])} | {ints(Y2)} | "
              f"{ints(Xm[:, 0])} | {ints(Ym)}")
        lines.append(line); obs.append(ob); metas.append(meta)
        res.add_case(line, nontrivial=(n >= 3 and 0 < halt < n))
        res.hit("split"); res.hit("split_halt_0" if halt == 0 else ("split_halt_n" if halt == n else "split_proper"))
        if case < 1:
            res.samples.append({"input": line, "impl": ob})
        msgs = []
        if X.tobytes() != Xb or Y.tobytes() != Yb:
            res.violations.append({"property": "C07", "what": "split modified its arguments", "replay": meta})
        if halt != int(n * pct):
            msgs.append(f"first set has {halt} samples, int(n*percentage) = {int(n * pct)}")
        if halt != int(F_floor(n, pct)):
            res.hit("float_floor_differs_from_exact_floor")
        ids = list(I1) + list(I2)
        if sorted(int(v) for v in ids) != list(range(n)):
            msgs.append(f"indices {ids} do not assign each sample to exactly one set")
        for Xs, Ys, Is in ((X1, Y1, I1), (X2, Y2, I2)):
            for r, yv, iv in zip(Xs, Ys, Is):
                if r.tobytes() != X[iv].tobytes() or yv != Y[iv]:
                    msgs.append(f"sample {iv} lost its row or label")
        for a, b in zip((X1, X2, Y1, Y2, I1, I2), again):
            if np.asarray(a).tobytes() != np.asarray(b).tobytes():
                msgs.append("split_with_index is not a deterministic function of the seed")
        for a, b in zip((X1, X2, Y1, Y2), (X1b, X2b, Y1b, Y2b)):
            if a.tobytes() != b.tobytes():
                msgs.append("split and split_with_index disagree for the same seed")
        if Counter((r.tobytes(), int(y)) for r, y in zip(Xm, Ym)) != Counter((r.tobytes(), int(y)) for r, y in zip(X, Y)):
            msgs.append("merge(split(...)) is not the original sample multiset")
        viol(msgs, meta)

    # ---------------- parse_loader ----------------
    for case in range(200 * scale):
        n = rng.randint(1, 12)
        kind = rng.choice(["seq", "seq", "gap", "neg", "frac", "from1", "single"])
        K = rng.randint(1, 4)
        if kind == "seq":
            labs = [float(rng.randrange(K)) for _ in range(n)]
            for c in range(min(K, n)):
                labs[c] = float(c)
            if len(set(labs)) < max(labs) + 1:
                kind = "gap"
        elif kind == "gap":
            labs = [float(rng.choice([0, 2, 3])) for _ in range(n)]
        elif kind == "neg":
            labs = [float(rng.choice([-1, 0, 1])) for _ in range(n)]
        elif kind == "frac":
            labs = [rng.choice([0.0, 0.5, 1.0, 2.0]) for _ in range(n)]
        elif kind == "from1":
            labs = [float(rng.randint(1, 2)) for _ in range(n)]
        else:
            labs = [0.0] * n
        data = np.array([[float(i), labs[i], 0.25 * i, -1.5] for i in range(n)])
        try:
            Xp, Yp = parser.parse_loader(data)
            accepted = True
        except Exception as ex:
            accepted = False
            Xp = Yp = None
        seq = sorted(set(labs)) == [float(c) for c in range(len(set(labs)))]
        meta = {"labels": labs}
        res.hit("parse_" + kind); res.hit("parse_accepted" if accepted else "parse_rejected")
        if accepted != seq:
            viol(f"parse_loader {'accepted' if accepted else 'rejected'} the label set {sorted(set(labs))} "
                 f"({'sequential' if seq else 'not sequential'} 0..K-1)", meta)
        if accepted:
            if Xp.tobytes() != data[:, 2:].tobytes() or [int(v) for v in Yp] != [int(v) for v in labs]:
                viol("parse_loader did not return columns 2.. as features and column 1 as labels", meta)
        if all(float(v).is_integer() for v in labs):
            line = f"parse {n} {ints(labs)}"
            lines.append(line); obs.append("1" if accepted else "0"); metas.append(meta)
            res.add_case(line, nontrivial=(len(set(labs)) >= 2))

    # ---------------- converters + loaders + parse + Subgraph(from_file) ----------------
    for case in range(60 * scale):
        n = rng.choice([1, 2, 3, 5, 8, 13])
        d = rng.randint(1, 6)
        K = rng.randint(1, min(3, n))
        labels1 = [1 + (i % K) for i in range(n)]
        rng.shuffle(labels1)
        ids = rng.sample(range(0, 1000), n) if rng.random() < 0.5 else \
            [rng.choice([rng.randint(0, 2 ** 31 - 1), 2 ** 24 + 1 + rng.randint(0, 1000), 123456789, rng.randint(0, 99)]) for _ in range(n)]
        feats = [[struct.unpack("<f", struct.pack("<f", rng.choice([rng.gauss(0, 10), rng.uniform(-1e-3, 1e-3), float(rng.randint(-5, 5)), 1e10 * rng.random()])))[0]
                  for _ in range(d)] for _ in range(n)]
        nonfin = rng.random() < 0.15
        if nonfin:
            # a stored feature may be an IEEE infinity (a saturated sensor value, a log of 0): data, not an error
            feats[rng.randrange(n)][rng.randrange(d)] = rng.choice([float("inf"), float("-inf")])
            res.hit("convert_infinite_feature")
        Kh = K
        if rng.random() < 0.3:
            Kh = K + rng.choice([1, 2])        # a subset file keeps the whole data set's class count in its header
            res.hit("header_class_count_above_labels_present")
        raw = struct.pack("<iii", n, Kh, d)
        for i in range(n):
            raw += struct.pack("<ii" + "f" * d, ids[i], labels1[i], *feats[i])
        # a few path names per shape are re-used: a file re-written with another dataset of the same size is a new dataset
        base = os.path.join(tmp, f"c{n}_{d}_{case % 2}")
        res.hit("convert_path_reused" if os.path.exists(base + ".dat") else "convert_path_new")
        with open(base + ".dat", "wb") as f:
            f.write(raw)
        meta = {"n": n, "d": d, "ids": ids, "labels1": labels1, "feats": feats}
        outs = {}
        try:
            converter.opf2txt(base + ".dat", base + ".txt")
            converter.opf2csv(base + ".dat", base + ".csv")
            converter.opf2json(base + ".dat", base + ".json")
            for ext, ld in (("txt", loader.load_txt), ("csv", loader.load_csv), ("json", loader.load_json)):
                data = ld(base + "." + ext)
                Xp, Yp = parser.parse_loader(data)
                sg = Subgraph(from_file=base + "." + ext)
                outs[ext] = ([int(v) for v in data[:, 0]], [int(v) for v in Yp], [[f32bits(v) for v in r] for r in Xp],
                             [[f32bits(v) for v in nd.features] for nd in sg.nodes], [nd.label for nd in sg.nodes])
        except Exception as ex:
            viol(f"convert/load/parse raised {type(ex).__name__}: {ex}", meta)
            continue
        want = (ids, [l - 1 for l in labels1], [[f32bits(v) for v in r] for r in feats])
        msgs = []
        for ext, o in outs.items():
            if (o[0], o[1], o[2]) != want:
                msgs.append(f".{ext}: loaded (ids, labels, float32 features) differ from the stored samples")
            if o[3] != want[2] or o[4] != want[1]:
                msgs.append(f".{ext}: Subgraph(from_file) nodes differ from the stored samples")
        if len({json.dumps(o[:3]) for o in outs.values()}) != 1:
            msgs.append("the three formats yield different data")
        viol(msgs, meta)
        if nonfin:
            continue            # oracle only: the model line is for finite data
        line = f"decode {len(raw)} {ints(raw)}"
        o = outs["txt"]
        ob = " , ".join(f"{o[0][i]} {o[1][i]} {' '.join(str(v) for v in o[2][i])}" for i in range(n))
        lines.append(line); obs.append(ob); metas.append(meta)
        res.add_case(line, nontrivial=(n >= 2)); res.hit("convert"); res.hit("convert_n1" if n == 1 else "convert_n>1")

    # ---------------- translated converters / load_json / parse_loader executed against the real ones ----------------
    # (Gen/ConvImp.lean, Gen/ParseImp.lean through DriverConv.lean: validates the trusted reading Model/PyStruct.lean, PyMeas.lean)
    class _Rec:
        """stands in for the module `np` / `j` inside converter.py while one converter runs: records what is written."""
        def __init__(self, real):
            self._real = real; self.rows = None; self.kw = None; self.obj = None
        def __getattr__(self, k):
            return getattr(self._real, k)
        def savetxt(self, fname, X, **kw):
            self.rows = [tuple(r) for r in X]; self.kw = kw
            return self._real.savetxt(fname, X, **kw)
        def dump(self, obj, f, **kw):
            self.obj = obj
            return self._real.dump(obj, f, **kw)

    def sv(v):
        if isinstance(v, (int, np.integer)) and not isinstance(v, bool):
            return str(int(v))
        return "f" + str(f32bits(float(v)))

    glines, gobs, gmetas = [], [], []
    for case in range(120 * scale):
        n = rng.choice([0, 1, 2, 3, 5])
        d = rng.choice([0, 1, 2, 4])
        kind = rng.choice(["ok", "ok", "ok", "trunc", "trail", "negn", "negd", "short_header", "bigid"])
        ids = [rng.choice([rng.randint(-2 ** 31, 2 ** 31 - 1), 2 ** 24 + 1 + rng.randint(0, 9), rng.randint(0, 99)]) for _ in range(n)]
        labs = [rng.choice([rng.randint(1, 4), 0, -3, 2 ** 31 - 1]) for _ in range(n)]
        fb = [[rng.choice([rng.getrandbits(32), 0x3f800000, 0x80000000, 0x7f800000, 0x00000001]) for _ in range(d)] for _ in range(n)]
        hn, hd = n, d
        if kind == "negn":
            hn = -rng.randint(1, 3)
        if kind == "negd":
            hd = -rng.randint(1, 3)
        raw = struct.pack("<iii", hn, rng.randint(0, 5), hd)
        for i in range(n):
            raw += struct.pack("<ii", ids[i], labs[i]) + b"".join(struct.pack("<I", w) for w in (fb[i] if hd >= 0 else []))
        if kind == "trunc" and len(raw) > 12:
            raw = raw[:len(raw) - rng.randint(1, min(7, len(raw) - 12))]
        if kind == "trail":
            raw += bytes(rng.getrandbits(8) for _ in range(rng.randint(1, 9)))
        if kind == "short_header":
            raw = raw[:rng.randint(0, 11)]
        base = os.path.join(tmp, f"g{case % 3}")
        with open(base + ".dat", "wb") as f:
            f.write(raw)
        parts = []
        nan_payload = any(((w >> 23) & 0xff) == 0xff and (w & 0x7fffff) for r in fb for w in r)
        for name, ext in (("opf2txt", "txt"), ("opf2csv", "csv"), ("opf2json", "json")):
            rn, rj = _Rec(converter.np), _Rec(converter.j)
            converter.np, converter.j = rn, rj
            try:
                import warnings
                with warnings.catch_warnings():
                    warnings.simplefilter("ignore")
                    getattr(converter, name)(base + ".dat", base + "." + ext)
                if ext == "json":
                    top = rj.obj
                    recs = top[list(top.keys())[0]] if isinstance(top, dict) and len(top) == 1 else None
                    parts.append("ERR" if recs is None else " , ".join(
                        " ".join(k + "=" + ("[" + " ".join(sv(x) for x in v) + "]" if isinstance(v, list) else sv(v)) for k, v in r.items()) for r in recs))
                else:
                    parts.append("ERR" if rn.rows is None else " , ".join(" ".join(sv(x) for x in r) for r in rn.rows))
            except Exception:
                parts.append("ERR")
            finally:
                converter.np, converter.j = rn._real, rj._real
        # load_json on the file opf2json wrote (numpy turns the row into float64: ids / labels compared as ints, features as binary32)
        try:
            if parts[2] == "ERR":
                raise ValueError
            arr = loader.load_json(base + ".json")
            lj = " , ".join(" ".join([str(int(r[0])), str(int(r[1]))] + ["f" + str(f32bits(float(x))) for x in r[2:]]) for r in arr)
            if d == 0 and n:
                lj = " , ".join(" ".join([str(int(r[0])), str(int(r[1]))]) for r in arr)
        except Exception:
            lj = "ERR"
        parts.append(lj)
        if nan_payload:
            res.hit("gen_conv_nan_payload_skipped")      # a NaN's payload is not preserved by float32 -> float64 -> text
            continue
        gl = f"gconv {len(raw)} {ints(raw)}".replace("  ", " ").rstrip()
        glines.append(gl); gobs.append(" | ".join(parts)); gmetas.append({"kind": kind, "n": n, "d": d, "raw": list(raw)})
        res.add_case(gl, nontrivial=(n >= 2)); res.hit("gen_conv_" + kind)
        if parts[0] == "ERR":
            res.hit("gen_conv_raises")
    for case in range(150 * scale):
        r = rng.randint(0, 6)
        c = rng.choice([1, 2, 3, 4])
        if r == 0:
            c = max(c, 2)      # the translation reads a matrix as its list of rows: one without rows has no column count, and is
                               # read as having the label column (numpy raises IndexError for a 0 x 1 matrix) — translate_conv.py
        K = rng.randint(1, 3)
        kind = rng.choice(["seq", "seq", "gap", "neg", "from1", "any"])
        M = [[rng.randint(-3, 9) for _ in range(c)] for _ in range(r)]
        if c >= 2:
            for i in range(r):
                M[i][1] = {"seq": (i if i < K else rng.randrange(K)), "gap": rng.choice([0, 2, 3]), "neg": rng.choice([-1, 0, 1]),
                           "from1": rng.randint(1, 2), "any": rng.randint(-1, 3)}[kind]
        data = np.array(M, dtype=float).reshape(r, c)
        try:
            Xp, Yp = parser.parse_loader(data)
            ob = " ".join(str(int(v)) for v in Yp) + " ; " + " , ".join(" ".join(str(int(v)) for v in row) for row in Xp)
            if Yp.dtype.kind != "i":
                viol("parse_loader returned labels that are not integers", {"matrix": M})
        except Exception:
            ob = "ERR"
        gl = f"gparse {r} {c} {ints([v for row in M for v in row])}".replace("  ", " ").rstrip()
        glines.append(gl); gobs.append(ob); gmetas.append({"kind": "parse_" + kind, "matrix": M})
        res.add_case(gl, nontrivial=(r >= 2)); res.hit("gen_parse_" + kind); res.hit("gen_parse_raises" if ob == "ERR" else "gen_parse_returns")
    gmodel = run_driver(glines, driver="DriverConv.lean", soft=True)
    if gmodel is None:
        res.disagreements.append({"stream": "stream", "case": 0, "kind": "gconv", "segments": [0, 1, 2, 3], "input": "(all)",
                                  "impl": "-", "model": "DriverConv.lean does not run (a generated file it imports was not translated?): " + str(getattr(run_driver, "last_error", ""))[-600:], "meta": {}})
    else:
        for k, (l, a, b) in enumerate(zip(glines, gobs, gmodel)):
            if a != b:
                sa, sb = a.split(" | "), b.split(" | ")
                segs = [i for i in range(max(len(sa), len(sb))) if (sa[i] if i < len(sa) else None) != (sb[i] if i < len(sb) else None)]
                res.disagreements.append({"stream": "stream", "case": k, "kind": l.split(" ", 1)[0], "segments": segs, "input": l[:400],
                                          "impl": a[:400], "model": b[:400], "meta": gmetas[k]})
    shutil.rmtree(tmp, ignore_errors=True)
    compare(res, lines, obs, metas)
    return res


def F_floor(n, pct):
    from fractions import Fraction
    import math
    return math.floor(Fraction(n) * Fraction(float(pct)))
