"""stream `dist`: every registered metric (through `DISTANCES[name]` and through
`OPF(distance=name).distance_fn`) against the `Float` semantics of the translator's output
(validates the translator), against the hand-written closed forms in 60-digit arithmetic (oracle of
C06), the axiom table (oracle of C08) and purity checks (C07)."""
import re
from common import *  # noqa
import axioms as A


def gen_functions():
    """function order of Gen/Distance.lean (index used by the driver)."""
    src = open(os.path.join(LEAN_DIR, "OpfVerif", "Gen", "Distance.lean")).read()
    block = src[src.index("def functions"):]
    block = block[:block.index("]")]
    return [m.group(1) for m in re.finditer(r'\("([a-z0-9_]+)", (?:true|false), (?:true|false)\)', block)]


def gen_vec(rng, d, dom, special=None):
    if special == "lattice" and dom != "prob":
        v = [float(rng.randint(1, 4)) for _ in range(d)]
    elif dom == "real":
        v = [rng.choice([rng.gauss(0, 3), float(rng.randint(-3, 3)), rng.uniform(-1e3, 1e3)]) for _ in range(d)]
        if special == "zeros":
            v[rng.randrange(d)] = 0.0
    elif dom == "nonneg":
        v = [abs(rng.gauss(0, 2)) for _ in range(d)]
        if special == "zeros":
            v[rng.randrange(d)] = 0.0
    elif dom == "pos":
        v = [rng.choice([rng.uniform(0.05, 5), rng.uniform(1e-3, 1e3), float(rng.randint(1, 5))]) for _ in range(d)]
    else:  # prob
        v = [rng.uniform(0.05, 1) for _ in range(d)]
        s = sum(v)
        v = [x / s for x in v]
    return v


def bits(f):
    import struct
    return struct.unpack("<Q", struct.pack("<d", float(f)))[0]


def close(a, b, rel=1e-9, abs_=0.0):
    if a != a or b != b:
        return (a != a) and (b != b)
    return abs(a - b) <= rel * max(1.0, abs(a), abs(b)) + abs_


BOOST = int(os.environ.get("VERIF_BOOST", "1"))


def run(rng, tier, res=None, metrics=None):
    op = load_opfython()
    import opfython.math.distance as dist
    from opfython.core.opf import OPF
    res = res or Result("dist")
    fnames = gen_functions()
    reg = dict(dist.DISTANCES)
    names = sorted(reg)
    if metrics:
        names = [n for n in names if n in metrics]
    per = (14 * BOOST) if tier == "quick" else 150
    lines, obs, metas = [], [], []

    def viol(prop, what, meta):
        res.violations.append({"property": prop, "what": what, "replay": meta})

    # registry / whitelist agreement on the real objects (C06)
    wl = None
    try:
        OPF(distance="__no_such_metric__")
    except Exception:
        pass
    accepted = []
    for n in sorted(set(list(reg) + list(A.TABLE))):
        try:
            o = OPF(distance=n)
            accepted.append(n)
            if o.distance_fn is not reg.get(n):
                viol("C06", f"OPF(distance={n!r}).distance_fn is not DISTANCES[{n!r}]", {"metric": n})
        except Exception as ex:
            if n in reg:
                viol("C06", f"identifier {n!r} is in the registry but rejected by the models: {type(ex).__name__}", {"metric": n})
    # ... and through each model's `distance` option
    from opfython.models.supervised import SupervisedOPF
    from opfython.models.semi_supervised import SemiSupervisedOPF
    from opfython.models.knn_supervised import KNNSupervisedOPF
    from opfython.models.unsupervised import UnsupervisedOPF
    for cls in (SupervisedOPF, SemiSupervisedOPF, KNNSupervisedOPF, UnsupervisedOPF):
        for n in sorted(reg):
            try:
                m = cls(distance=n)
                if m.distance != n or m.distance_fn is not reg[n]:
                    viol("C06", f"{cls.__name__}(distance={n!r}) resolves to distance={m.distance!r} / a function that is not "
                                f"DISTANCES[{n!r}]", {"metric": n, "model": cls.__name__})
            except Exception as ex:
                viol("C06", f"{cls.__name__}(distance={n!r}) raised {type(ex).__name__}", {"metric": n, "model": cls.__name__})
        try:
            cls(distance="__no_such_metric__")
            viol("C06", f"{cls.__name__} accepts an identifier that is not in the registry", {"model": cls.__name__})
        except Exception:
            pass
        res.hit("model_option_checked")
    if sorted(accepted) != sorted(reg) or sorted(reg) != sorted(A.TABLE):
        viol("C06", f"accepted identifiers / registry / reference table differ: "
                    f"{sorted(set(accepted) ^ set(reg))} {sorted(set(reg) ^ set(A.TABLE))}", {})
    for name in names:
        fn = reg[name]
        pyname = getattr(fn, "__name__", None) or getattr(getattr(fn, "py_func", None), "__name__", "?")
        if pyname not in fnames:
            viol("C06", f"registry maps {name} to {pyname}, which the translator did not emit", {"metric": name})
            continue
        k = fnames.index(pyname)
        dom, sym, nn, zs, tri = A.TABLE.get(name, ("pos", 0, 0, 0, 0))
        # finiteness on zero-containing non-negative vectors (what avoid_zero_division exists for): systematic
        for zx, zy in (([0.0], [0.0]), ([0.0, 0.0, 0.0], [0.0, 0.0, 0.0]), ([0.0, 1.5], [2.0, 0.5]), ([0.0, 1.0, 2.0], [0.0, 3.0, 0.5]),
                       ([1.0, 0.0], [1.0, 0.0])):
            try:
                vz = float(fn(np.array(zx), np.array(zy)))
                if not np.isfinite(vz):
                    viol("C08", f"{name} returned {vz!r} on zero-containing non-negative vectors", {"metric": name, "x": zx, "y": zy})
                if zs and dom in ("nonneg", "real", "pos"):
                    vzz = float(fn(np.array(zx), np.array(zx)))
                    if np.isfinite(vzz) and abs(vzz) > (1e-6 if name in ("chord",) else 1e-9):   # chord: square root of a rounding residue
                        viol("C08", f"{name}(x, x) = {vzz!r} on the zero-containing vector {zx}, expected 0 up to rounding", {"metric": name, "x": zx, "y": zx})
            except Exception as ex:
                viol("C08", f"{name} raised {type(ex).__name__} on zero-containing non-negative vectors", {"metric": name, "x": zx, "y": zy})
            res.hit("poszero_fixed_vectors")
        for c in range(per):
            d = rng.choice([1, 2, 3, 4, 5, 7, 8, 9, 12])
            special = rng.choice([None, None, None, "zeros", "lattice", "equal", "parallel", "near", "poszero", "sharedbig", "close", "chain"])
            if tri and c < 3 and dom in ("real", "nonneg", "pos"):
                special = ("close", "chain", "close")[c]     # every true metric sees nearby collinear triples on every run
            x = gen_vec(rng, d, dom, special)
            if special == "poszero":
                # zero-containing non-negative vectors: what avoid_zero_division exists for (finiteness only)
                x = [abs(v) for v in x]; y = [abs(v) for v in gen_vec(rng, d, dom)]
                mode = rng.randrange(3)
                if mode == 0:
                    x[rng.randrange(d)] = 0.0
                elif mode == 1:
                    x = [0.0] * d; y = [0.0] * d
                else:
                    t = rng.randrange(d); x[t] = 0.0; y[t] = 0.0
                try:
                    vz = float(fn(np.array(x), np.array(y)))
                    if not np.isfinite(vz):
                        viol("C08", f"{name} returned {vz!r} on zero-containing non-negative vectors", {"metric": name, "x": x, "y": y})
                except Exception as ex:
                    viol("C08", f"{name} raised {type(ex).__name__} on zero-containing non-negative vectors", {"metric": name, "x": x, "y": y})
                res.hit("poszero_finite_checked")
                continue
            if special == "near":
                # coordinates that differ only in the last few bits / by 1e-9 relative
                # relative differences around the usual tolerance constants (1e-12 … 1e-5, incl. just above/below)
                y = [v * (1 + rng.choice([0, 1e-12, 1e-9, -1e-9, 1e-8, 1e-6, 1e-5, 1.00001e-5, 0.99999e-5, -1.00001e-5]))
                     if rng.random() < 0.7 else v + rng.choice([1e-9, 1e-8, 1.1e-8]) for v in x]
                if dom == "prob":
                    y = gen_vec(rng, d, dom)
            elif special == "equal":
                y = list(x)
            elif special == "parallel":
                lam = rng.choice([2.0, 0.5, 3.0])
                y = [lam * v for v in x]
                if dom == "prob":
                    y = gen_vec(rng, d, dom)
            else:
                y = gen_vec(rng, d, dom, special if special != "zeros" else rng.choice([None, "zeros"]))
            z = gen_vec(rng, d, dom, "lattice" if special == "lattice" else None)
            if special == "sharedbig" and dom != "prob":
                # quantised features: two vectors agree EXACTLY in a large component, the third differs there slightly
                big = float(rng.choice([50, 100, 1000]))
                x = [float(rng.randint(1, 4)) for _ in range(d)] + [big]
                y = [float(rng.randint(1, 4)) for _ in range(d)] + [big]
                z = list(y[:-1]) + [big + 1.0]
                if rng.random() < 0.5:
                    z[rng.randrange(d)] = float(rng.randint(1, 4))
                d = d + 1
            if special == "close" and dom in ("real", "nonneg", "pos"):
                # three nearby, roughly collinear points less than 1 apart (where a concave/convex transform shows)
                base_ = [rng.uniform(0.2, 1.0) for _ in range(d)]
                dir_ = [rng.uniform(0.5, 1.0) for _ in range(d)]
                t1, t2 = sorted([rng.uniform(0.05, 0.3), rng.uniform(0.3, 0.6)])
                x = list(base_); z = [b_ + t1 * u_ for b_, u_ in zip(base_, dir_)]; y = [b_ + t2 * u_ for b_, u_ in zip(base_, dir_)]
            if dom == "pos" and name in A.SHIFTED and c % 6 == 4:
                # strictly positive vectors with entries at or below the guard constant (1e-20): the guard is part of the closed form
                special = "tinypos"
                x = [rng.choice([1e-21, 2e-22, 5e-20, 1.0, 0.5, 2.0, 3e-19]) for _ in range(d)]
                y = [rng.choice([1e-21, 2e-22, 5e-20, 1.0, 0.5, 2.0, 3e-19]) for _ in range(d)]
                z = [rng.choice([1e-21, 5e-20, 1.0, 0.5]) for _ in range(d)]
            if special == "chain" and dom in ("real", "nonneg", "pos"):
                # three DISTINCT points in a row, each step relatively tiny (a few 1e-6), the ends twice as far apart
                step = rng.choice([4e-6, 8e-6, 3e-7])
                x = [rng.uniform(0.5, 3.0) for _ in range(d)]
                z = [v * (1 + step) for v in x]
                y = [v * (1 + 2 * step) for v in x]
            xa, ya, za = np.array(x), np.array(y), np.array(z)
            xb, yb = xa.tobytes(), ya.tobytes()
            meta = {"metric": name, "x": x, "y": y}
            try:
                v1 = float(fn(xa, ya))
                v2 = float(fn(xa, ya))
                v3 = float(OPF(distance=name).distance_fn(xa, ya))
            except Exception as ex:
                viol("C08", f"{name} raised {type(ex).__name__}: {ex} on its domain", meta)
                continue
            # C07: purity
            if xa.tobytes() != xb or ya.tobytes() != yb:
                viol("C07", f"{name} modified its argument arrays", meta)
            if bits(v1) != bits(v2) or bits(v1) != bits(v3):
                viol("C07", f"{name} returned {v1!r} then {v2!r} / {v3!r} for the same argument values", meta)
            # the value depends on argument VALUES only: the same buffer object refilled in place gives the new value
            if c % 4 == 0:
                try:
                    buf = xa.copy(); _ = fn(buf, ya)
                    buf[:] = za; vbuf = float(fn(buf, ya)); vfresh = float(fn(za.copy(), ya.copy()))
                    if bits(vbuf) != bits(vfresh):
                        viol("C07", f"{name}: a buffer refilled in place gives {vbuf!r}, fresh arrays with the same values give {vfresh!r}", meta)
                    buf2 = ya.copy(); _ = fn(xa, buf2); buf2[:] = za
                    if bits(float(fn(xa, buf2))) != bits(float(fn(xa.copy(), za.copy()))):
                        viol("C07", f"{name}: a second-argument buffer refilled in place gives a stale value", meta)
                    res.hit("buffer_reuse_checked")
                except Exception as ex:
                    viol("C07", f"{name} raised {type(ex).__name__} on a reused buffer", meta)
            # int-typed arrays must be usable too and leave the caller's data alone
            if special == "lattice" and all(float(v).is_integer() for v in x + y):
                xi, yi = xa.astype(np.int64), ya.astype(np.int64)
                try:
                    vi = float(fn(xi, yi))
                    if xi.tobytes() != xa.astype(np.int64).tobytes():
                        viol("C07", f"{name} modified an integer argument array", meta)
                    if not close(vi, v1, 1e-12):
                        viol("C07", f"{name}: value on integer arrays {vi!r} differs from value on equal float arrays {v1!r}", meta)
                except Exception as ex:
                    viol("C07", f"{name} raised {type(ex).__name__} on integer arrays (caller data handling)", meta)
                    viol("C06", f"{name} raised {type(ex).__name__} on integer-valued vectors instead of evaluating its closed form", meta)
                    viol("C08", f"{name} raised {type(ex).__name__} on in-domain integer-valued vectors", meta)
                res.hit("int_arrays")
            # read-only views of the caller's data (memory-mapped / shared datasets) are in-domain vectors too
            if c % 5 == 0:
                xr, yr = xa.copy(), ya.copy()
                xr.setflags(write=False); yr.setflags(write=False)
                try:
                    vr = float(fn(xr, yr))
                    if bits(vr) != bits(v1):
                        viol("C07", f"{name}: value on read-only arrays {vr!r} differs from {v1!r}", meta)
                except Exception as ex:
                    viol("C07", f"{name} raised {type(ex).__name__} on read-only arrays (it writes through its arguments)", meta)
                    viol("C06", f"{name} raised {type(ex).__name__} on read-only vectors instead of evaluating its closed form", meta)
                    viol("C08", f"{name} raised {type(ex).__name__} on in-domain read-only vectors", meta)
                res.hit("readonly_arrays")
            line = f"dist {k} {d} {ints(bits(v) for v in x)} {ints(bits(v) for v in y)}"
            lines.append(line); obs.append(v1); metas.append(meta)
            res.add_case(line, nontrivial=(d >= 2 and special != "equal"))
            res.hit("special_" + str(special)); res.hit("dom_" + dom)
            # C08 finite / symmetric / non-negative / zero-self / triangle
            if not np.isfinite(v1):
                viol("C08", f"{name} returned {v1!r} (not finite) on its domain", meta)
                try:
                    ref = float(A.closed(name, x, y))
                    viol("C06", f"{name}: implementation {v1!r} differs from the closed form {ref!r}", meta)
                except Exception:
                    pass
                continue
            scale = max(1.0, abs(v1))
            if sym:
                vs = float(fn(ya, xa))
                if not close(v1, vs, 1e-9):
                    viol("C08", f"{name} not symmetric: d(x,y)={v1!r} d(y,x)={vs!r}", meta)
            if nn and v1 < -1e-9 * scale:
                viol("C08", f"{name} negative: {v1!r}", meta)
            if zs:
                vx = float(fn(xa, xa.copy()))
                tol = 1e-6 if name in ("chord",) else 1e-9
                if not (abs(vx) <= tol):
                    viol("C08", f"{name}(x, x) = {vx!r}, expected 0 up to rounding", {"metric": name, "x": x, "y": x})
                res.hit("zero_self_checked")
            if tri:
                dxz, dzy = float(fn(xa, za)), float(fn(za, ya))
                if v1 > dxz + dzy + 1e-9 * max(1.0, abs(dxz) + abs(dzy)):
                    viol("C08", f"{name} violates the triangle inequality: d(x,y)={v1!r} > {dxz!r}+{dzy!r}",
                         {"metric": name, "x": x, "y": y, "z": z})
                res.hit("triangle_checked")
            # C06 closed form
            try:
                ref = float(A.closed(name, x, y))
                abs_ = 2e-7 if name in ("chord",) else (1e-12 if name in ("cosine", "dice", "jensen", "jensen_shannon", "topsoe", "k_divergence", "kullback_leibler", "bhattacharyya", "jeffreys", "statistic") else 0.0)
                rel = 1e-9
                if not close(v1, ref, rel, abs_):
                    viol("C06", f"{name}: implementation {v1!r} differs from the closed form {ref!r}", meta)
                res.hit("closed_form_checked")
            except (decimal.InvalidOperation, ZeroDivisionError, ValueError):
                res.hit("closed_form_undefined")
            # the caller keeps using its arrays: after every evaluation above they must still hold the values the
            # caller stored, so any metric evaluated NEXT on them still returns its closed form
            if xa.tobytes() != xb or ya.tobytes() != yb:
                for other in ("hamming", "euclidean"):
                    if other in reg:
                        try:
                            hv = float(reg[other](xa, np.array(x)))
                            if hv != 0.0:
                                viol("C06", f"after evaluating {name} on u, {other}(u, fresh copy of the values stored in u) = {hv!r}; "
                                            f"the closed form is 0", meta)
                                viol("C08", f"after evaluating {name} on u, {other}(u, u') = {hv!r} for u' equal to the values stored in u", meta)
                        except Exception:
                            pass
                try:
                    va = float(fn(xa, ya)); ref = float(A.closed(name, x, y))
                    if np.isfinite(ref) and not close(va, ref, 1e-9, 1e-12 if abs(ref) < 1 else 0.0) and close(v1, ref, 1e-9, 1e-12):
                        viol("C06", f"{name}: re-evaluated on the same arrays gives {va!r}, closed form of the stored values {ref!r}", meta)
                        viol("C08", f"{name}: d(x,y) evaluated twice on the same arrays gives {v1!r} then {va!r}", meta)
                except Exception:
                    pass
            # degree-0 homogeneous metrics keep their value under a common rescaling of both vectors; checked at a
            # scale where every coordinate, square and cube is finite (1e90) only for metrics that are scale-invariant
            # at moderate scales on this very pair
            if c % 3 == 0 and dom in ("real", "nonneg", "pos") and np.isfinite(v1):
                try:
                    v2s, v8s = float(fn(xa.copy() * 2.0, ya.copy() * 2.0)), float(fn(xa.copy() * 8.0, ya.copy() * 8.0))
                    if abs(v1) > 1e-3 and abs(v2s - v1) <= 1e-9 * abs(v1) and abs(v8s - v1) <= 1e-9 * abs(v1) and all(abs(t) > 1e-3 for t in x + y):
                        vh = float(fn(xa.copy() * 1e90, ya.copy() * 1e90))
                        res.hit("scale_invariance_checked")
                        if not abs(vh - v1) <= 1e-6 * abs(v1):
                            viol("C08", f"{name} is scale-invariant on (x, y) at scales 2 and 8 but returns {vh!r} at scale 1e90 "
                                        f"(value at scale 1: {v1!r}); all inputs and the result are finite", meta)
                            viol("C06", f"{name}: closed form at scale 1e90 equals the one at scale 1 ({v1!r}); implementation {vh!r}", meta)
                except Exception:
                    pass
            if len(res.samples) < 3 and c == 0:
                res.samples.append({"metric": name, "x": x, "y": y, "value": v1})
    model = run_driver(lines)
    import struct
    for kx, (l, a, b) in enumerate(zip(lines, obs, model)):
        if b == "bad-op":
            res.disagreements.append({"stream": "dist", "case": kx, "input": l[:200], "impl": a, "model": b, "meta": metas[kx]})
            continue
        mv = struct.unpack("<d", struct.pack("<Q", int(b)))[0]
        if bits(mv) == bits(a):
            res.hit("bit_exact")
        name = metas[kx]["metric"]
        abs_ = 2e-7 if name in ("chord",) else 1e-12
        if not close(a, mv, 1e-11, abs_):
            res.disagreements.append({"stream": "dist", "case": kx, "input": l[:200], "impl": repr(a), "model": repr(mv), "meta": metas[kx]})
    return res


import decimal  # noqa: E402
