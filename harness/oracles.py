"""Independent reference oracles, used on the REAL code's outputs (tier C of DESIGN §2.3 and the
failing-input search of §2.4).  They restate the property texts by brute force and share no
code with the Lean models."""
import itertools
from fractions import Fraction as F


def minimax_all(n, w):
    """Floyd–Warshall over the (max, min) semiring: m[a][b] = min over paths a~>b of the largest arc."""
    INF = float("inf")
    m = [[(0 if a == b else w(a, b)) for b in range(n)] for a in range(n)]
    for k in range(n):
        mk = m[k]
        for a in range(n):
            mak = m[a][k]
            ma = m[a]
            for b in range(n):
                v = mak if mak > mk[b] else mk[b]
                if v < ma[b]:
                    ma[b] = v
    return m


def check_forest(n, w, true_label, proto, cost, pred, plabel, order, prop="C01"):
    """C01 / C15 clauses for a fitted forest. `w(a,b)` numeric weights, NIL = -1. returns list of messages."""
    bad = []
    S = [i for i in range(n) if proto[i]]
    if not S:
        return ["no prototype"]
    m = minimax_all(n, w)
    for t in range(n):
        opt = 0 if proto[t] else min(m[s][t] for s in S)
        if cost[t] != opt:
            bad.append(f"cost[{t}]={cost[t]} but optimum max-arc path cost is {opt}")
    for t in range(n):
        seen = set()
        x = t
        while pred[x] != -1:
            if x in seen:
                bad.append(f"predecessor cycle through {x}")
                break
            seen.add(x)
            p = pred[x]
            if cost[x] != max(cost[p], w(p, x)):
                bad.append(f"link {p}->{x}: cost {cost[x]} != max({cost[p]}, {w(p, x)})")
            x = p
        else:
            if not proto[x]:
                bad.append(f"chain from {t} ends at non-prototype {x}")
            elif plabel[t] != true_label[x]:
                bad.append(f"label of {t} is {plabel[t]}, root {x} has true label {true_label[x]}")
    for s in S:
        if cost[s] != 0 or pred[s] != -1:
            bad.append(f"prototype {s} has cost {cost[s]} pred {pred[s]}")
    if sorted(order) != list(range(n)):
        bad.append(f"conquest order {order} is not a permutation of all samples")
    elif any(cost[order[i]] > cost[order[i + 1]] for i in range(n - 1)):
        bad.append("conquest order not sorted by cost")
    return bad


def mst_weight_kruskal(n, w):
    edges = sorted((F(w(a, b)), a, b) for a in range(n) for b in range(a + 1, n))
    parent = list(range(n))

    def find(x):
        while parent[x] != x:
            parent[x] = parent[parent[x]]
            x = parent[x]
        return x
    tot = 0
    cnt = 0
    for c, a, b in edges:
        ra, rb = find(a), find(b)
        if ra != rb:
            parent[ra] = rb
            tot += c
            cnt += 1
    return tot, cnt


def is_spanning_tree(n, arcs):
    parent = list(range(n))

    def find(x):
        while parent[x] != x:
            parent[x] = parent[parent[x]]
            x = parent[x]
        return x
    if len(arcs) != n - 1:
        return False
    for a, b in arcs:
        ra, rb = find(a), find(b)
        if ra == rb:
            return False
        parent[ra] = rb
    return True


def mst_boundary_sets(n, w, label, limit=200000):
    """set of all prototype sets obtainable as cross-class endpoints of SOME minimum spanning tree
    (exhaustive over spanning trees; n <= 7)."""
    edges = [(a, b) for a in range(n) for b in range(a + 1, n)]
    best, _ = mst_weight_kruskal(n, w)
    out = set()
    count = 0
    for arcs in itertools.combinations(edges, n - 1):
        count += 1
        if count > limit:
            return None
        if sum(F(w(a, b)) for a, b in arcs) != best:
            continue
        if not is_spanning_tree(n, arcs):
            continue
        s = set()
        for a, b in arcs:
            if label[a] != label[b]:
                s.add(a); s.add(b)
        out.add(frozenset(s))
    return out


def check_prototypes(n, w, label, proto, prim_pred, exhaustive_n=6):
    """C02: the tree given by the Prim predecessors is a minimum spanning tree and the prototypes
    are exactly the endpoints of its cross-class arcs; exhaustive cross-check for small n."""
    bad = []
    arcs = [(prim_pred[v], v) for v in range(n) if prim_pred[v] != -1]
    S = frozenset(i for i in range(n) if proto[i])
    if n <= exhaustive_n:
        sets = mst_boundary_sets(n, w, label)
        if sets is not None and S not in sets:
            bad.append(f"prototype set {sorted(S)} is not the class-boundary endpoint set of any MST "
                       f"(candidates: {[sorted(x) for x in list(sets)[:5]]})")
    if not is_spanning_tree(n, arcs):
        bad.append(f"Prim predecessors {prim_pred} do not form a spanning tree")
        return bad
    tot = sum(F(w(a, b)) for a, b in arcs)
    best, _ = mst_weight_kruskal(n, w)
    if tot != best:
        bad.append(f"tree weight {tot} exceeds the minimum spanning weight {best}")
    want = set()
    for a, b in arcs:
        if label[a] != label[b]:
            want.add(a); want.add(b)
    if want != set(S):
        bad.append(f"prototypes {sorted(S)} != cross-class endpoints {sorted(want)} of the computed tree")
    classes = set(label)
    if len(classes) >= 2:
        for c in classes:
            if not any(label[s] == c for s in S):
                bad.append(f"class {c} has no prototype")
    return bad


def check_predict(n, cost, plabel, d, got_label):
    """C03: label must be the assigned label of SOME exhaustive minimiser of max(cost t, d t)."""
    vals = [max(cost[t], d[t]) for t in range(n)]
    mn = min(vals)
    ok = {plabel[t] for t in range(n) if vals[t] == mn}
    if got_label not in ok:
        return [f"predicted {got_label}; exhaustive minimisers (value {mn}) carry labels {sorted(ok)}"]
    return []


def relevant_closure(n, pred, conquerors):
    rel = [False] * n
    for c in conquerors:
        x = c
        guard = 0
        while x != -1 and guard <= n:
            rel[x] = True
            x = pred[x]
            guard += 1
    return rel
