"""streams `knnpred` and `select`: full `KNNSupervisedOPF` / `UnsupervisedOPF` fit and predict on
feature data with a real metric, against the Lean models L6/L7; oracles for C04 (KNN clause),
C09, C14, C16 on the real outputs."""
from common import *  # noqa
import struct
import copy
import warnings
warnings.filterwarnings("ignore")


def fb(f):
    return struct.unpack("<Q", struct.pack("<d", float(f)))[0]


class Proxy:
    """forwards every attribute to `target`, except the ones overridden."""

    def __init__(self, target, **over):
        object.__setattr__(self, "_t", target)
        object.__setattr__(self, "_o", over)

    def __getattr__(self, name):
        o = object.__getattribute__(self, "_o")
        if name in o:
            return o[name]
        return getattr(object.__getattribute__(self, "_t"), name)


def gen_data(rng, n, d, kind):
    if kind == "lattice":
        return np.array([[float(rng.randint(0, 3)) for _ in range(d)] for _ in range(n)])
    if kind == "dups":
        base = [[float(rng.randint(0, 2)) for _ in range(d)] for _ in range(max(1, n // 2))]
        return np.array([list(rng.choice(base)) for _ in range(n)])
    if kind == "sparse":
        # count / histogram data: exact zeros shared by several samples
        A_ = np.array([[float(rng.choice([0, 0, 0, 1, 2, 5])) for _ in range(max(d, 3))] for _ in range(n)])
        for r in range(n):
            if A_[r].sum() == 0:
                A_[r][rng.randrange(A_.shape[1])] = 1.0
        return A_
    if kind == "tiny":
        # a very small numeric scale (squared distances far below 1e-5)
        return np.array([[rng.gauss(0, 1) * 1e-3 for _ in range(d)] for _ in range(n)])
    if kind == "blobs":
        cs = [[rng.uniform(-5, 5) for _ in range(d)] for _ in range(3)]
        return np.array([[c + rng.gauss(0, 0.7) for c in rng.choice(cs)] for _ in range(n)])
    return np.array([[rng.gauss(0, 1) for _ in range(d)] for _ in range(n)])


BOOST = int(os.environ.get("VERIF_BOOST", "1"))


def run(rng, tier, res=None, want=("knnpred", "select")):
    load_opfython()
    import opfython.math.distance as dist
    import opfython.math.general as G
    import opfython.models.knn_supervised as KS
    import opfython.models.unsupervised as US
    from opfython.subgraphs.knn import KNNSubgraph
    res = res or Result("knnmodel")
    NEGTOP = enc(-FLOAT_MAX)
    scale = BOOST if tier == "quick" else 10
    lines, obs, metas = [], [], []

    def viol(prop, msgs, meta):
        for m in (msgs if isinstance(msgs, list) else [msgs])[:3]:
            res.violations.append({"property": prop, "what": m, "replay": meta})

    real_np = np
    for case in range(110 * scale):
        unsup = rng.random() < 0.5
        n = rng.choice([3, 4, 5, 6, 8, 10, 12 if tier == "quick" else 16])
        d = rng.choice([1, 2, 3])
        kind = rng.choice(["lattice", "lattice", "dups", "blobs", "normal", "sparse", "tiny"])
        metric = rng.choice(["squared_euclidean", "euclidean", "manhattan", "log_squared_euclidean", "pearson", "neyman",
                             "kullback_leibler", "k_divergence"])       # the last two can be NEGATIVE on positive, non-normalised features
        if kind == "sparse":
            metric = rng.choice(["canberra", "bray_curtis", "chi_squared", "clark"])   # zero-guarded ratio metrics on data with zeros
            d = max(d, 3)
        if unsup and kind in ("normal", "blobs") and rng.random() < 0.5:
            kind = "tiny"          # small numeric scales matter most where the k-th-neighbour bound feeds the densities
        if kind == "tiny":
            metric = rng.choice(["squared_euclidean", "squared_euclidean", "euclidean"])
        asym = metric in ("pearson", "neyman", "kullback_leibler", "k_divergence")     # d(x, t) != d(t, x): the orientation of every evaluation matters
        fn = dist.DISTANCES[metric]
        X = gen_data(rng, n, d, kind)
        if asym:
            X = np.abs(X) + 0.5
        K = rng.choice([2, 2, 3])
        Y = np.array([rng.randrange(K) for _ in range(n)], dtype=int)
        nv = rng.choice([2, 3, 5])
        Xv = gen_data(rng, nv, d, kind)
        if asym:
            Xv = np.abs(Xv) + 0.5
        if rng.random() < 0.4:
            Xv[0] = X[rng.randrange(n)]            # a query equal to a training sample
        Yv = np.array([rng.randrange(K) for _ in range(nv)], dtype=int)
        if rng.random() < 0.15:
            Yv = np.array([(int(Y[0]) + 1) % K] * nv)   # validation labels mostly wrong
        Yv[rng.randrange(nv)] = K - 1                 # predictions (training labels) stay within opf_accuracy's class range
        if rng.random() < 0.25:
            Y = Y + 1; Yv = Yv + 1                    # class identifiers 1..K (as in native OPF files): no class 0 anywhere
        max_k = rng.randint(1, max(1, min(5, n - 1)))
        min_k = rng.randint(1, max_k)
        nq = rng.choice([1, 2, 4, 6])
        Q = gen_data(rng, nq, d, kind)
        if asym:
            Q = np.abs(Q) + 0.5
        for t in range(nq):
            if rng.random() < 0.4:
                Q[t] = X[rng.randrange(n)]
        if nq >= 2 and rng.random() < 0.3:
            Q[1] = Q[0]
        far = False
        if (not asym) and kind != "sparse" and rng.random() < 0.25:
            # a finite but very distant sample (every distance overflows): it has no usable neighbour, whatever came before it
            Q = np.vstack([Q, np.full((1, Q.shape[1]), 1e200)]); Q[-1][0] = -1e200
            nq += 1; far = True
            res.hit("query_without_usable_neighbour")
        # pre-computed mode: the samples are rows of a larger pool, in a shuffled order, addressed through index arrays
        # (KNN-supervised training refuses a matrix larger than its training set, so it is driven through features only)
        pre = unsup and rng.random() < 0.5
        It = Iv = Iq = None
        Mpre = None
        if pre:
            extra = rng.choice([0, 2, 5])
            tot = n + nv + nq + extra
            perm_u = list(range(tot)); rng.shuffle(perm_u)
            It, Iv, Iq = perm_u[:n], perm_u[n:n + nv], perm_u[n + nv:n + nv + nq]
            Pu = [None] * tot
            for r, pos in zip(list(X) + list(Xv) + list(Q), perm_u):
                Pu[pos] = np.array(r, dtype=float)
            for pos in perm_u[n + nv + nq:]:
                Pu[pos] = np.abs(gen_data(rng, 1, d, kind)[0]) + 0.5
            Mpre = np.array([[float(fn(Pu[a].copy(), Pu[b].copy())) for b in range(tot)] for a in range(tot)])
            res.hit("precomputed_with_index_arrays")
        meta = {"stream": "knnmodel", "unsup": unsup, "metric": metric, "X": X.tolist(), "Y": Y.tolist(),
                "Xv": Xv.tolist(), "Yv": Yv.tolist(), "max_k": max_k, "min_k": min_k, "pre_computed": pre, "I_train": It, "I_val": Iv}
        Xb, Yb, Xvb, Yvb = X.tobytes(), Y.tobytes(), Xv.tobytes(), Yv.tobytes()
        crit = []
        junk = [np.full(max_k, 1e300), np.full(max_k + 1, 1e300)]
        del junk                          # recycled memory must not influence a fit
        exp_tape = []
        try:
            if unsup:
                import opfython.subgraphs.knn as KN

                def exp_wrap(a, _t=exp_tape):
                    v = real_np.exp(a)
                    for a_, v_ in zip(real_np.asarray(a, dtype=float).ravel(), real_np.asarray(v, dtype=float).ravel()):
                        _t.append((float(a_), float(v_)))      # element-wise, should the code under test exponentiate a whole array
                    return v
                KN.np = Proxy(real_np, exp=exp_wrap)
                o = US.UnsupervisedOPF(min_k=min_k, max_k=max_k, distance=metric)
                if pre:
                    o.pre_computed_distance = True; o.pre_distances = Mpre
                orig_cut = o._normalized_cut
                state_before_final = {}

                inject = rng.random() < 0.5
                inj = [rng.choice([0.0, 0.5, 1.0, 1.0, 1.5, 2.0, 6.0, 1e-9, 3e-11, 1e-300]) for _ in range(max_k + 2)]   # tiny is not zero
                if inject and rng.random() < 0.5:
                    inj = [v if v != 0.0 else 1.0 for v in inj]     # no zero: every candidate is evaluated

                def cut_wrap(k, _f=orig_cut):
                    v = _f(k)
                    if inject:      # the selection rule is specified for EVERY criterion sequence: substitute one
                        v = inj[len(crit)]
                    crit.append((k, v)); return v
                o._normalized_cut = cut_wrap
                try:
                    o.fit(X, Y, I_train=(np.array(It) if pre else None))
                finally:
                    KN.np = real_np
            else:
                o = KS.KNNSupervisedOPF(max_k=max_k, distance=metric)
                if pre:
                    o.pre_computed_distance = True; o.pre_distances = Mpre
                accs = []

                inject = rng.random() < 0.5
                inj = [rng.choice([0.0, 0.0, 0.25, 0.5, 0.5, 0.75, 1.0]) for _ in range(max_k + 2)]

                cand_states = []

                def cand_snapshot(sg_):
                    # the candidate model as it stands when its validation accuracy is taken
                    return [(tuple(int(a_) for a_ in nd_.adjacency), nd_.pred, nd_.predicted_label, fb(nd_.cost), fb(nd_.density), nd_.n_plateaus)
                            for nd_ in sg_.nodes]

                def acc_wrap(a, b):
                    if [int(t) for t in a] != [int(t) for t in Yv]:
                        viol("C16", f"validation accuracy evaluated as opf_accuracy({[int(t) for t in a][:6]}..., ...): its first argument is not the "
                                    f"validation labels {Yv.tolist()[:6]}... (true and predicted labels exchanged?)", meta)
                    v = G.opf_accuracy(a, b)
                    try:
                        from fractions import Fraction as _Fr
                        la_, pb_ = [int(t) for t in a], [int(t) for t in b]
                        Kc = max(max(la_), max(pb_)) + 1; Nn = len(la_)
                        tot_ = _Fr(0)
                        for c_ in range(Kc):
                            nc_ = la_.count(c_)
                            fp_ = sum(1 for l_, p_ in zip(la_, pb_) if l_ != p_ and p_ == c_)
                            fn_ = sum(1 for l_, p_ in zip(la_, pb_) if l_ != p_ and l_ == c_)
                            if Nn - nc_ > 0:
                                tot_ += _Fr(fp_, Nn - nc_)
                            if nc_ > 0:
                                tot_ += _Fr(fn_, nc_)
                        want_ = 1 - tot_ / (2 * Kc)
                        if abs(float(want_) - float(v)) > 1e-12:
                            for pp_ in ("C16", "C20"):
                                viol(pp_, f"validation accuracy used to rank k is {float(v)!r}; the OPF accuracy of labels {la_} / predictions {pb_} "
                                          f"(classes absent from the labels keep their false-positive rate) is {float(want_)!r}", meta)
                    except Exception:
                        pass
                    if inject:
                        v = inj[len(crit)]
                    try:
                        cand_states.append(cand_snapshot(o.subgraph))
                    except Exception:
                        cand_states.append(None)
                    crit.append(v); return v
                import opfython.subgraphs.knn as KN

                def exp_wrap2(a, _t=exp_tape):
                    v = real_np.exp(a)
                    for a_, v_ in zip(real_np.asarray(a, dtype=float).ravel(), real_np.asarray(v, dtype=float).ravel()):
                        _t.append((float(a_), float(v_)))
                    return v
                import random as _random
                rh_ = _random.Random(104729 * case + 7)        # a generator of its own: the main stream of cases is left as it was
                if not pre and rh_.random() < 0.3:
                    # HISTORY: the same classifier object was trained before, on an easy problem (two distant groups: every candidate
                    # reaches accuracy 1) — C16 speaks of every training run, whatever the object has been through
                    n0 = 2 * (max_k + 2)
                    X0 = np.array([[(1.0 if i % 2 == 0 else 100.0) + 0.01 * rh_.random() for _ in range(d)] for i in range(n0)])
                    Y0 = np.array([i % 2 for i in range(n0)], dtype=int) + int(Y.min())
                    Xv0 = np.array([[(1.0 if i % 2 == 0 else 100.0) + 0.01 * rh_.random() for _ in range(d)] for i in range(4)])
                    Yv0 = np.array([i % 2 for i in range(4)], dtype=int) + int(Y.min())
                    try:
                        o.fit(X0, Y0, Xv0, Yv0)
                        res.hit("knn_fit_on_previously_fitted_object")
                        meta = dict(meta, earlier_fit={"X": X0.tolist(), "Y": Y0.tolist(), "Xv": Xv0.tolist(), "Yv": Yv0.tolist()})
                    except Exception:
                        res.hit("knn_prefit_raised")
                        o = KS.KNNSupervisedOPF(max_k=max_k, distance=metric)
                KS.g = Proxy(G, opf_accuracy=acc_wrap)
                KN.np = Proxy(real_np, exp=exp_wrap2)
                KS.np = Proxy(real_np, exp=exp_wrap2)
                try:
                    if pre:
                        o.fit(X, Y, Xv, Yv, np.array(It), np.array(Iv))
                    else:
                        o.fit(X, Y, Xv, Yv)
                finally:
                    KS.g = G
                    KN.np = real_np
                    KS.np = real_np
        except Exception as ex:
            viol("C16", f"fit raised {type(ex).__name__}: {ex}", meta)
            continue
        res.hit("criterion_injected" if inject else "criterion_real")
        if X.tobytes() != Xb or Y.tobytes() != Yb or Xv.tobytes() != Xvb or Yv.tobytes() != Yvb:
            which = [nm for nm, a_, b_ in (("X_train", X.tobytes(), Xb), ("Y_train", Y.tobytes(), Yb), ("X_val", Xv.tobytes(), Xvb),
                                           ("Y_val", Yv.tobytes(), Yvb)) if a_ != b_]
            viol("C07", f"{'UnsupervisedOPF' if unsup else 'KNNSupervisedOPF'}.fit modified the caller's {which}", meta)
        sg = o.subgraph
        best_k = sg.best_k
        nd = sg.nodes
        if any(a.density != a.density for a in nd):
            res.hit("skipped_nan_density")   # duplicates at rank k make the unsupervised density bound 0 (0/0): outside every property
            continue
        # ---------------- whole-pipeline model of UnsupervisedOPF.fit (criterion not injected) ----------------
        negm = metric in ("kullback_leibler", "k_divergence")     # negative "distances": outside the pipeline models' domain (predict rules still checked)
        if "select" in want and unsup and not inject and not negm:
            dmb = [fb(fn(X[i], X[j])) for i in range(n) for j in range(n)]
            tp = [v for a_, r_ in exp_tape for v in (fb(a_), fb(r_))]
            from s_knn import lists_str
            line = f"unsfit {n} {min_k} {max_k} {ints(dmb)} {len(exp_tape)} {ints(tp)}"
            adjl = [[int(a) for a in nd_.adjacency] for nd_ in nd]
            ob = (f"{best_k} | {ints(fb(v) for _, v in crit)} | {lists_str(adjl)} | {ints(nd_.n_plateaus for nd_ in nd)} | "
                  f"{ints(nd_.pred for nd_ in nd)} | {ints(nd_.root for nd_ in nd)} | {ints(nd_.cluster_label for nd_ in nd)} | "
                  f"{ints(fb(nd_.cost) for nd_ in nd)} | {ints(fb(nd_.density) for nd_ in nd)} | {ints(sg.idx_nodes)} | {sg.n_clusters} | "
                  f"{fb(sg.constant)} {fb(sg.min_density)} {fb(sg.max_density)} | {fb(sg.density)} | 1 0")
            lines.append(" ".join(line.split())); obs.append(ob); metas.append(meta)
            res.add_case(lines[-1], nontrivial=(max_k > min_k)); res.hit("unsfit_pipeline")
        if "select" in want and (not unsup) and not inject:
            dmb = [fb(fn(X[i], X[j])) for i in range(n) for j in range(n)]
            qmb = [fb(fn(Xv[q], X[j])) for q in range(nv) for j in range(n)]
            tp = [v for a_, r_ in exp_tape for v in (fb(a_), fb(r_))]
            line = (f"knnfit {n} {nv} {max_k} {ints(Y)} {ints(Yv)} {ints(dmb)} {ints(qmb)} {len(exp_tape)} {ints(tp)}")
            ob = (f"{best_k} | {ints(fb(v) for v in crit)} | {ints(nd_.pred for nd_ in nd)} | {ints(nd_.root for nd_ in nd)} | "
                  f"{ints(nd_.predicted_label for nd_ in nd)} | {ints(fb(nd_.cost) for nd_ in nd)} | {ints(fb(nd_.density) for nd_ in nd)} | "
                  f"{ints(sg.idx_nodes)} | {fb(sg.constant)} {fb(sg.min_density)} {fb(sg.max_density)} | {fb(sg.density)} | 1 0")
            lines.append(" ".join(line.split())); obs.append(ob); metas.append(meta)
            res.add_case(lines[-1], nontrivial=(max_k > 1)); res.hit("knnfit_pipeline")
        if (not unsup) and (not asym) and kind != "sparse" and n >= 3 and rng.random() < 0.5:
            # KNN-supervised through a pre-computed matrix of the training set: validation samples and queries are rows of that
            # matrix addressed by index arrays (non-identity, repeated) — must equal training / predicting on the same rows by features
            try:
                Mtr = np.array([[float(fn(X[a_].copy(), X[b_].copy())) for b_ in range(n)] for a_ in range(n)])
                if np.all(np.isfinite(Mtr)):
                    Ivp = [rng.randrange(n) for _ in range(nv)]
                    Iqp = [rng.randrange(n) for _ in range(max(2, nq))]
                    Yvp = np.array([int(Y[t_]) if rng.random() < 0.7 else int(Y[rng.randrange(n)]) for t_ in Ivp], dtype=int)
                    Yvp[0] = int(max(Y))
                    pa_ = KS.KNNSupervisedOPF(max_k=max_k, distance=metric)
                    pa_.pre_computed_distance = True; pa_.pre_distances = Mtr
                    pa_.fit(X.copy(), Y.copy(), X[Ivp].copy(), Yvp.copy(), np.arange(n), np.array(Ivp))
                    ra_ = list(pa_.predict(X[Iqp].copy(), np.array(Iqp)))
                    pb_ = KS.KNNSupervisedOPF(max_k=max_k, distance=metric)
                    pb_.fit(X.copy(), Y.copy(), X[Ivp].copy(), Yvp.copy())
                    rb_ = list(pb_.predict(X[Iqp].copy()))
                    if pa_.subgraph.best_k != pb_.subgraph.best_k or ra_ != rb_:
                        for pp_ in ("C14", "C10"):
                            viol(pp_, f"KNN-supervised on a pre-computed matrix with index arrays (validation rows {Ivp}, query rows {Iqp}): "
                                      f"best_k {pa_.subgraph.best_k}, predictions {ra_}; the same samples by features: best_k {pb_.subgraph.best_k}, "
                                      f"predictions {rb_}", meta)
                    res.hit("knn_precomputed_rows_vs_features")
            except Exception as ex:
                viol("C14", f"KNN-supervised on a pre-computed training matrix with index arrays raised {type(ex).__name__}: {ex}", meta)
        # ---------------- select (C16) ----------------
        if "select" in want:
            if unsup:
                cuts = [v for _, v in crit]
                line = f"selcut {TOP} 0 {min_k} {len(cuts)} {ints(enc(c) for c in cuts)}"
                lines.append(line); obs.append(f"{best_k} {len(cuts)}"); metas.append(meta)
                res.add_case(line, nontrivial=len(cuts) >= 2)
                res.hit("select_unsup"); res.hit("select_unsup_stopped_early" if len(cuts) < max_k - min_k + 1 else "select_unsup_full")
                ks = [k for k, _ in crit]
                msgs = []
                if ks != list(range(min_k, min_k + len(ks))):
                    msgs.append(f"candidates evaluated {ks} are not min_k, min_k+1, ...")
                if len(ks) < max_k - min_k + 1 and min(cuts) != 0.0:
                    msgs.append(f"evaluation stopped after {ks} although no cut was exactly 0 (cuts {cuts})")
                wantk = min(k for k, v in crit if v == min(cuts))
                if best_k != wantk:
                    msgs.append(f"kept k={best_k}; smallest k with the lowest cut among evaluated {crit} is {wantk}")
                viol("C16", msgs, meta)
            else:
                line = f"selmax {enc(-1.0)} {len(crit)} {ints(enc(a) for a in crit)}"
                lines.append(line); obs.append(str(best_k)); metas.append(meta)
                res.add_case(line, nontrivial=len(crit) >= 2)
                res.hit("select_knn"); res.hit("select_knn_allzero" if max(crit) == 0 else "select_knn_some")
                msgs = []
                if len(crit) != max_k:
                    msgs.append(f"{len(crit)} candidates evaluated, expected {max_k}")
                wantk = 1 + crit.index(max(crit))
                if best_k != wantk:
                    msgs.append(f"kept k={best_k}; smallest k with the highest accuracy in {crit} is {wantk}")
                    # the kept k is not a function of what THIS training run computed: whatever else decides it is hidden state
                    viol("C07", f"KNN-supervised training kept k={best_k} although the accuracies of this run's own candidates {crit} select "
                                f"{wantk} (max_k={max_k}): the result depends on something other than the arguments of this call "
                                f"(state left by earlier fits?)", meta)
                viol("C16", msgs, meta)
            # the criterion itself: normalised cut of the final clustering, against the model (Float, bit-exact)
            if unsup and not negm:
                kk = best_k
                cutv = orig_cut(kk)
                adjl = [[int(a) for a in nd_.adjacency] for nd_ in nd]
                dm = [fb(fn(X[i], X[j])) for i in range(n) for j in range(n)]
                from s_knn import lists_tok
                line = (f"ncut {n} {kk} {sg.n_clusters} {lists_tok(adjl)} {ints(nd_.n_plateaus for nd_ in nd)} "
                        f"{ints(nd_.cluster_label for nd_ in nd)} {ints(dm)}")
                lines.append(" ".join(line.split())); obs.append(str(fb(cutv))); metas.append(meta)
                res.add_case(lines[-1], nontrivial=True); res.hit("ncut")
                # oracle: definition in exact rationals
                from fractions import Fraction as Fr
                inte = [Fr(0)] * sg.n_clusters; exte = [Fr(0)] * sg.n_clusters
                for i in range(n):
                    for j in adjl[i][: nd[i].n_plateaus + kk]:
                        dv = float(fn(X[i], X[j]))
                        if dv > 0:
                            if nd[i].cluster_label == nd[j].cluster_label:
                                inte[nd[i].cluster_label] += 1 / Fr(dv)
                            else:
                                exte[nd[i].cluster_label] += 1 / Fr(dv)
                wantc = sum((exte[l] / (inte[l] + exte[l]) for l in range(sg.n_clusters) if inte[l] + exte[l] > 0), Fr(0))
                if abs(float(wantc) - cutv) > 1e-9 * max(1, abs(cutv)):
                    viol("C16", f"normalised cut {cutv} != sum over clusters of external/(internal+external) = {float(wantc)}", meta)
            if unsup and not inject:
                # the candidates' criterion values, re-derived with each candidate's OWN bound computed from the raw distances
                try:
                    srt3 = [sorted(float(fn(X[i_], X[j_])) for j_ in range(n) if j_ != i_) for i_ in range(n)]
                    md3 = [max(srt3[i_][l_] for i_ in range(n)) if l_ < n - 1 else 0.0 for l_ in range(max_k)]
                    sg3 = KNNSubgraph(X.copy(), Y.copy())
                    o3 = US.UnsupervisedOPF(min_k=min_k, max_k=max_k, distance=metric); o3.subgraph = sg3
                    sg3.create_arcs(max_k, fn, False, None)
                    cuts3 = []
                    for k3, _v in crit:
                        sg3.density = md3[k3 - 1]; sg3.best_k = k3
                        sg3.calculate_pdf(k3, fn, False, None); o3._clustering(k3); cuts3.append(float(orig_cut.__func__(o3, k3)))
                    if [fb(c_) for c_ in cuts3] != [fb(v_) for _k, v_ in crit] and not any(c_ != c_ for c_ in cuts3):
                        viol("C16", f"criterion values seen by the search {[(k_, v_) for k_, v_ in crit]} differ from the normalised cuts of the "
                                    f"candidates built with their own k-th-neighbour bound {cuts3}", meta)
                    res.hit("candidate_cuts_rederived")
                except Exception as ex:
                    res.notes.append(f"candidate re-derivation skipped: {type(ex).__name__}")
            if (not unsup) and not pre:
                try:
                    sg4 = KNNSubgraph(X.copy(), Y.copy())
                    o4 = KS.KNNSupervisedOPF(max_k=max_k, distance=metric); o4.subgraph = sg4
                    accs4, states4 = [], []
                    for k4 in range(1, max_k + 1):
                        sg4.best_k = k4
                        sg4.create_arcs(k4, fn, False, None); sg4.calculate_pdf(k4, fn, False, None); o4._clustering()
                        accs4.append(float(G.opf_accuracy(Yv.copy(), o4.predict(Xv.copy()))))
                        states4.append(cand_snapshot(sg4))
                        sg4.destroy_arcs()
                    if len(cand_states) == len(states4) and None not in cand_states:
                        for k4, (a_, b_) in enumerate(zip(cand_states, states4), start=1):
                            if a_ != b_:
                                t_ = next(i_ for i_ in range(n) if a_[i_] != b_[i_])
                                viol("C16", f"candidate k={k4} as evaluated by the search is not the model built for k={k4} on a subgraph whose arcs were destroyed after every candidate: sample {t_} has "
                                            f"(arcs, pred, label, cost, density, plateaus) {a_[t_]} vs {b_[t_]}", meta)
                                break
                        res.hit("candidate_models_rederived")
                    if (not inject) and [fb(a_) for a_ in accs4] != [fb(v_) for v_ in crit]:
                        viol("C16", f"validation accuracies seen by the search {[float(v_) for v_ in crit]} differ from those of the candidates built one by one "
                                    f"(arcs, densities, clustering, validation predictions for that k alone) {accs4}", meta)
                    res.hit("candidate_accuracies_rederived")
                except Exception as ex:
                    res.notes.append(f"candidate accuracy re-derivation skipped: {type(ex).__name__}")
            # final model is the one built with best_k (same running density bound)
            sg2 = KNNSubgraph(X.copy(), Y.copy())
            if unsup:
                o2 = US.UnsupervisedOPF(min_k=min_k, max_k=max_k, distance=metric)
                o2.subgraph = sg2
                sg2.create_arcs(max_k, fn, False, None)
                sg2.destroy_arcs()
                # per-rank maxima recomputed from the raw distances (not taken from create_arcs' return value)
                srt_ = [sorted(float(fn(X[i_], X[j_])) for j_ in range(n) if j_ != i_) for i_ in range(n)]
                md = [max(srt_[i_][l_] for i_ in range(n)) if l_ < n - 1 else 0.0 for l_ in range(max_k)]
                sg2.density = md[crit[-1][0] - 1]
                sg2.create_arcs(best_k, fn, False, None)
                sg2.calculate_pdf(best_k, fn, False, None)
                o2._clustering(best_k)
                f1 = [(a.pred, a.root, a.cluster_label, fb(a.cost), fb(a.density)) for a in nd]
                f2 = [(a.pred, a.root, a.cluster_label, fb(a.cost), fb(a.density)) for a in sg2.nodes]
            else:
                o2 = KS.KNNSupervisedOPF(max_k=max_k, distance=metric)
                o2.subgraph = sg2
                for kk in range(1, max_k + 1):
                    sg2.create_arcs(kk, fn, False, None); sg2.destroy_arcs()
                sg2.create_arcs(best_k, fn, False, None)
                sg2.calculate_pdf(best_k, fn, False, None)
                o2._clustering(force_prototype=True)
                f1 = [(a.pred, a.root, a.predicted_label, fb(a.cost), fb(a.density)) for a in nd]
                f2 = [(a.pred, a.root, a.predicted_label, fb(a.cost), fb(a.density)) for a in sg2.nodes]
            if f1 != f2:
                viol("C16", f"final model differs from the one built with best_k={best_k}: {f1[:3]} vs {f2[:3]}", meta)
                viol("C13", f"the clustering left by fit is not the clustering of the best_k={best_k} graph with the best_k densities "
                            f"(pred/root/label/cost/density of the first nodes: {f1[:3]} vs {f2[:3]})", meta)
            res.hit("final_model_checked")
            if not unsup:
                if [a.predicted_label for a in nd] != [int(v) for v in Y]:
                    viol("C04", f"KNN-supervised training labels {[a.predicted_label for a in nd]} != true labels {Y.tolist()}", meta)
                res.hit("c04_knn_checked")
        # ---------------- predict (C09, C14) ----------------
        # ---- C07 / C09, history: the SAME array object handed to predict twice, its contents replaced in place in between ----
        if not pre and nq >= 1:
            try:
                buf = Q.copy()
                o.predict(buf)
                import random as _random2
                rb_ = _random2.Random(104729 * case + 11)      # own generator, as above
                Q2 = np.array([X[rb_.randrange(n)] for _ in range(nq)]) if rb_.random() < 0.5 else Q[::-1].copy()
                buf[:] = Q2
                pb = o.predict(buf)
                pc = o.predict(Q2.copy())
                cn = (lambda r: ([int(v) for v in r[0]], [int(v) for v in r[1]])) if unsup else (lambda r: [int(v) for v in r])
                if cn(pb) != cn(pc):
                    for pp_ in ("C07", "C09"):
                        viol(pp_, f"{'UnsupervisedOPF' if unsup else 'KNNSupervisedOPF'}.predict on an array whose contents were replaced in place after an "
                                  f"earlier predict call on the same array object returned {cn(pb)}; the same values in a new array give {cn(pc)}: "
                                  f"the result depends on the call history, not on the argument values", dict(meta, Q_first=Q.tolist(), Q_second=Q2.tolist()))
                res.hit("predict_same_buffer_new_contents")
            except Exception as ex:
                res.hit("predict_same_buffer_raised")
        if "knnpred" in want:
            if rng.random() < 0.3:
                # the public maxima filter between fit and predict: costs become max(density - h, 0); predict keeps using COSTS
                try:
                    sg.eliminate_maxima_height(rng.choice([50.0, 200.0, 0.5, 900.0]))
                    res.hit("predict_after_eliminate_maxima_height")
                except Exception:
                    pass

            def predict_(rows):
                return o.predict(Q[rows], I_val=np.array([Iq[r] for r in rows])) if pre else o.predict(Q[rows])
            mod = US if unsup else KS
            calls = []

            def min_wrap(a, b):
                calls.append((a, b)); return real_np.minimum(a, b)
            mod.np = Proxy(real_np, minimum=min_wrap)
            fb0 = b"".join(a.features.tobytes() for a in nd)
            try:
                out = predict_(list(range(nq)))
            finally:
                mod.np = real_np
            if b"".join(a.features.tobytes() for a in nd) != fb0:
                viol("C09", "predict modified the fitted model's stored features: later predictions depend on the call history", meta)
            preds, clus = (out if unsup else (out, [0] * nq))
            costs = [enc(a.cost) for a in nd]
            labs = [a.predicted_label for a in nd]
            cl = [a.cluster_label for a in nd]
            ci = 0
            for t in range(nq):
                dists = [fn(Q[t], X[j]) for j in range(n)]
                if not all(np.isfinite(v) for v in dists):
                    res.hit("knnq_nonfinite_distances_skipped")     # outside C14's rule; C09's context-independence still checked below
                    continue
                order = sorted(range(n), key=lambda j: (dists[j], j))[:best_k]
                m = len(order)
                mine = calls[ci:ci + m]; ci += m
                dens_obs = mine[0][1] if mine else 0.0
                if not np.isfinite(dens_obs):
                    if all(np.isfinite(v_) for v_ in (sg.min_density, sg.max_density, sg.constant)) and sg.constant != 0:
                        viol("C14", f"query {t}: the density compared with the neighbours' costs is {dens_obs!r} although every distance to the "
                                    f"training samples and the trained density range [{sg.min_density}, {sg.max_density}] are finite", dict(meta, Q=Q.tolist(), t=t))
                    res.hit("knnq_nonfinite_query_density")
                    continue
                line = (f"knnq {best_k} {n} {TOP} {NEGTOP} {enc(dens_obs)} {ints(enc(v) for v in dists)} {ints(costs)} "
                        f"{ints(labs)} {ints(cl)}")
                ob = f"{ints(enc(a) for a, _ in mine)} | {preds[t]} {clus[t]}"
                lines.append(line); obs.append(ob); metas.append(dict(meta, Q=Q.tolist(), t=t))
                res.add_case(line, nontrivial=(best_k >= 2))
                res.hit("knnq"); res.hit("knnq_train_copy" if any((Q[t] == X[j]).all() for j in range(n)) else "knnq_other")
                # query density against the model's formula
                kd = sorted(dists)[:best_k] + [FLOAT_MAX] * max(0, best_k - n)
                exps = [np.exp(-v / sg.constant) for v in kd]
                if mine:
                    lines.append(f"qdens {fb(sg.min_density)} {fb(sg.max_density)} {best_k} {ints(fb(e) for e in exps)}")
                    obs.append(str(fb(dens_obs))); metas.append(dict(meta, Q=Q.tolist(), t=t, what="qdens"))
                    res.add_case(lines[-1], nontrivial=True)
                # ---- C14 oracle ----
                msgs = []
                if [enc(nd[j].cost) for j in order] != [enc(a) for a, _ in mine]:
                    msgs.append(f"query {t}: neighbours consulted (by cost) {[float(a) for a, _ in mine]} are not the {best_k} nearest "
                                f"training samples {order}")
                if mine:
                    dd = sum(exps) / best_k
                    wv = 999 * (dd - sg.min_density) / (sg.max_density - sg.min_density + 1e-20) + 1
                    if abs(wv - dens_obs) > 1e-9 * max(1, abs(wv)):
                        msgs.append(f"query {t}: density {dens_obs} != formula {wv}")
                    vals = [min(nd[j].cost, dens_obs) for j in order]
                    best = max(vals)
                    okl = {(nd[j].predicted_label, nd[j].cluster_label) for j, v in zip(order, vals) if v == best}
                    if (preds[t], clus[t] if unsup else nd[order[0]].cluster_label * 0 + (0)) not in {(a, (b if unsup else 0)) for a, b in okl}:
                        msgs.append(f"query {t}: returned ({preds[t]},{clus[t]}) not among arg-max neighbours {sorted(okl)}")
                viol("C14", msgs, dict(meta, Q=Q.tolist(), t=t))
            # ---- C09: position / batch / history independence ----
            msgs = []
            perm = list(range(nq)); rng.shuffle(perm)
            out2 = predict_(perm)
            p2, c2 = (out2 if unsup else (out2, [0] * nq))
            for a, t in enumerate(perm):
                if (p2[a], c2[a]) != (preds[t], clus[t]):
                    msgs.append(f"sample {t} predicted ({preds[t]},{clus[t]}) at position {t} but ({p2[a]},{c2[a]}) at position {a}")
            for t in range(nq):
                o1 = predict_([t])
                p1, c1 = (o1 if unsup else (o1, [0]))
                if (p1[0], c1[0]) != (preds[t], clus[t]):
                    msgs.append(f"sample {t} predicted ({preds[t]},{clus[t]}) in the batch but ({p1[0]},{c1[0]}) alone")
            if not pre:
                # history: every training sample (the densest ones included) and two far outliers predicted in between — densities
                # outside the range seen in training — must leave later predictions as they were
                try:
                    span = float(np.max(np.abs(X))) + 1.0
                    hist = np.vstack([X, X[:1] + 50.0 * span, X[:1] * 0.0 + 1e6 * span])
                    o.predict(hist.copy())
                    out3 = predict_(list(range(nq)))
                    p3, c3 = (out3 if unsup else (out3, [0] * nq))
                    for t in range(nq):
                        if (p3[t], c3[t]) != (preds[t], clus[t]):
                            msgs.append(f"sample {t} predicted ({preds[t]},{clus[t]}) before and ({p3[t]},{c3[t]}) after an unrelated predict call on the "
                                        f"training samples and two distant points")
                    res.hit("c09_after_training_rows_and_outliers")
                except Exception:
                    res.hit("c09_history_call_raised")
            viol("C09", msgs, dict(meta, Q=Q.tolist()))
            res.hit("c09_checked")
        if case < 2 and lines:
            res.samples.append({"input": lines[-1][:300], "impl": obs[-1][:200]})
    compare(res, lines, obs, metas)
    return res
