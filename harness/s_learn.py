"""stream `learn`: `SupervisedOPF.learn` and `prune` with the random draws and the accuracy calls
observed from outside, against the Lean model L8; oracles of C17 on the real outputs."""
from common import *  # noqa
from collections import Counter
import warnings
warnings.filterwarnings("ignore")
from s_knnmodel import Proxy


BOOST = int(os.environ.get("VERIF_BOOST", "1"))


def run(rng, tier, res=None):
    load_opfython()
    import opfython.math.general as G
    import opfython.math.random as R
    import opfython.models.supervised as S
    res = res or Result("learn")
    lines, obs, metas = [], [], []
    ncases = (60 * BOOST) if tier == "quick" else 700

    def viol(msgs, meta):
        for m in (msgs if isinstance(msgs, list) else [msgs])[:3]:
            res.violations.append({"property": "C17", "what": m, "replay": meta})

    def key(row, lab):
        return (row.tobytes(), int(lab))

    for case in range(ncases):
        nt = rng.choice([4, 5, 6, 8, 10, 12])
        nv = rng.choice([2, 3, 5, 8])
        d = rng.choice([1, 2, 3])
        K = 2 if rng.random() < 0.7 else 3
        n = nt + nv
        sep = rng.choice([0.0, 0.5, 1.5, 4.0])
        Y = np.array([i % K for i in range(n)], dtype=int)
        rng.shuffle(Y)
        if rng.random() < 0.5:
            # small integer grid with labels independent of position: exact ties among arc weights, coincident
            # points, training samples conquered by another class (assigned label != true label)
            g = rng.choice([2, 3])
            X = np.array([[float(rng.randint(0, g)) for _ in range(2)] for i in range(n)])
            d = 2
            Y = np.array([rng.randrange(K) for _ in range(n)], dtype=int)
        else:
            X = np.array([[rng.gauss(sep * Y[i], 1.0) for _ in range(d)] for i in range(n)])
        Xt, Yt, Xv, Yv = X[:nt].copy(), Y[:nt].copy(), X[nt:].copy(), Y[nt:].copy()
        layout = rng.choice(["c", "c", "c", "column_slice", "fortran", "row_stride"])
        if layout == "column_slice":
            # the feature columns of a wider table: a strided view, still the caller's data
            Wt = np.hstack([np.full((nt, 1), -7.0), Xt, np.full((nt, 1), 9.0)]); Wv = np.hstack([np.full((nv, 1), -7.0), Xv, np.full((nv, 1), 9.0)])
            Xt, Xv = Wt[:, 1:1 + Xt.shape[1]], Wv[:, 1:1 + Xv.shape[1]]
        elif layout == "fortran":
            Xt, Xv = np.asfortranarray(Xt), np.asfortranarray(Xv)
        elif layout == "row_stride":
            Bt = np.zeros((2 * nt, Xt.shape[1])); Bt[::2] = Xt; Bv = np.zeros((2 * nv, Xv.shape[1])); Bv[::2] = Xv
            Xt, Xv = Bt[::2], Bv[::2]
        res.hit("layout_" + layout)
        if len(set(Yt.tolist())) < 2:
            Yt[0], Yt[1] = 0, 1
        Yv[rng.randrange(nv)] = K - 1     # keep every prediction inside opf_accuracy's class range
        if K - 1 not in Yt:
            Yt[2 % nt] = K - 1
        iters = rng.choice([1, 2, 3, 5])
        metric = rng.choice(["euclidean", "log_squared_euclidean", "manhattan"])
        meta = {"stream": "learn", "Xt": Xt.tolist(), "Yt": Yt.tolist(), "Xv": Xv.tolist(), "Yv": Yv.tolist(),
                "iterations": iters, "metric": metric}
        before = Counter(key(r, l) for r, l in zip(np.vstack([Xt, Xv]), np.hstack([Yt, Yv])))
        ident = {}
        for r, l in zip(np.vstack([Xt, Xv]), np.hstack([Yt, Yv])):
            ident.setdefault(key(r, l), len(ident))
        o = S.SupervisedOPF(distance=metric)
        log = []      # one entry per iteration
        draws = []

        def arrangement():
            return ([ident.get(key(r, l), -1) for r, l in zip(Xt, Yt)], [ident.get(key(r, l), -1) for r, l in zip(Xv, Yv)])

        inject_acc = rng.random() < 0.25
        inj_seq = [rng.choice([0.9950, 0.99504950, 0.99500001, 0.5, 0.50004, 0.49996, 0.2]) for _ in range(iters + 2)]

        def acc_wrap(a, b):
            v = G.opf_accuracy(a, b)
            if inject_acc:
                v = inj_seq[len(log)]      # the keep-the-best rule is specified for EVERY accuracy sequence: substitute one
            sg = o.subgraph
            log.append({"acc": float(v), "Yv": [int(x) for x in a], "preds": [int(x) for x in b],
                        "proto": [1 if nd.status == 1 else 0 for nd in sg.nodes],
                        "forest": [(nd.features.tobytes(), nd.label, nd.predicted_label, nd.pred, float(nd.cost)) for nd in sg.nodes],
                        "arr": arrangement(), "draws_at": len(draws)})
            return v

        def draw_wrap(low=0.0, high=1.0, size=1):
            v = R.generate_uniform_random_number(low, high, size)
            draws.append(int(v[0]))
            return v
        S.g = Proxy(G, opf_accuracy=acc_wrap)
        S.r = Proxy(R, generate_uniform_random_number=draw_wrap)
        np.random.seed(rng.randint(0, 10 ** 6))
        try:
            o.learn(Xt, Yt, Xv, Yv, n_iterations=iters)
        except Exception as ex:
            viol(f"learn raised {type(ex).__name__}: {ex}", meta)
            continue
        finally:
            S.g = G
            S.r = R
        final_arr = arrangement()
        # ---- C17 oracles ----
        msgs = []
        after = Counter(key(r, l) for r, l in zip(np.vstack([Xt, Xv]), np.hstack([Yt, Yv])))
        if after != before:
            msgs.append("the multiset of (features, label) pairs over training+validation changed")
        if Xt.shape != (nt, d) or Xv.shape != (nv, d) or len(Yt) != nt or len(Yv) != nv:
            msgs.append("set sizes changed")
        accs = [e["acc"] for e in log]
        best = accs.index(max(accs))
        kept = [(nd.features.tobytes(), nd.label, nd.predicted_label, nd.pred, float(nd.cost)) for nd in o.subgraph.nodes]
        if kept != log[best]["forest"]:
            msgs.append(f"classifier left in the object is not the one of the best iteration {best + 1} (accuracies {accs})")
        viol(msgs, meta)
        # every sample the learned classifier stores is one of the caller's samples WITH ITS OWN LABEL
        pool = set(before.keys())
        bad_nodes = [t for t, nd in enumerate(o.subgraph.nodes) if (np.ascontiguousarray(nd.features).tobytes(), int(nd.label)) not in pool]
        if bad_nodes:
            for pp in ("C04", "C17"):
                res.violations.append({"property": pp, "what": f"classifier left by learn(): stored training samples {bad_nodes[:6]} carry a label that is not "
                                       f"the label of the sample whose features they hold", "replay": meta})
        res.hit("learned_classifier_samples_checked")
        # C01 on the classifier learn leaves behind: an optimum-path forest over the samples IT stores
        try:
            import oracles as O
            nds = o.subgraph.nodes
            nn = len(nds)
            Wm = [[float(o.distance_fn(nds[a].features.copy(), nds[b].features.copy())) for b in range(nn)] for a in range(nn)]
            if all(Wm[a][b] == Wm[b][a] for a in range(nn) for b in range(nn)) and len({nd.label for nd in nds}) >= 2:
                m1 = O.check_forest(nn, lambda a, b: Wm[a][b], [nd.label for nd in nds], [nd.status == 1 for nd in nds],
                                    [nd.cost for nd in nds], [nd.pred for nd in nds], [nd.predicted_label for nd in nds],
                                    list(o.subgraph.idx_nodes))
                for mm in m1[:2]:
                    res.violations.append({"property": "C01", "what": "classifier left by learn(): " + mm, "replay": meta})
                res.hit("c01_on_learned_classifier")
                # C02 on the same classifier: its prototypes are the class-boundary endpoints of an MST of the samples it stores
                if nn <= 7:
                    sets_ = O.mst_boundary_sets(nn, lambda a, b: Wm[a][b], [nd.label for nd in nds])
                    protos_ = frozenset(t for t in range(nn) if nds[t].status == 1)
                    if sets_ is not None and protos_ not in sets_:
                        res.violations.append({"property": "C02", "what": f"classifier left by learn(): prototypes {sorted(protos_)} are not the "
                                               f"class-boundary endpoints of any minimum spanning tree of its own samples", "replay": meta})
                    res.hit("c02_on_learned_classifier")
                else:
                    ws_ = [Wm[a][b] for a in range(nn) for b in range(a + 1, nn)]
                    if len(set(ws_)) == len(ws_):
                        # distinct weights: the minimum spanning tree is unique (Kruskal)
                        par_ = list(range(nn))

                        def find_(x):
                            while par_[x] != x:
                                par_[x] = par_[par_[x]]; x = par_[x]
                            return x
                        want_p = set()
                        for wv_, a_, b_ in sorted((Wm[a][b], a, b) for a in range(nn) for b in range(a + 1, nn)):
                            ra_, rb_ = find_(a_), find_(b_)
                            if ra_ != rb_:
                                par_[ra_] = rb_
                                if nds[a_].label != nds[b_].label:
                                    want_p |= {a_, b_}
                        protos_ = {t for t in range(nn) if nds[t].status == 1}
                        if protos_ != want_p:
                            res.violations.append({"property": "C02", "what": f"classifier left by learn(): prototypes {sorted(protos_)} != class-boundary "
                                                   f"endpoints {sorted(want_p)} of the (unique) minimum spanning tree of its own samples", "replay": meta})
                        res.hit("c02_on_learned_classifier_unique_mst")
        except Exception as ex:
            res.notes.append(f"c01-on-learn oracle skipped: {type(ex).__name__}")
        res.hit("learn_iterations_%d" % len(log)); res.hit("learn_best_not_last" if best != len(log) - 1 else "learn_best_last")
        # ---- model lines: the exchange loop of every iteration, and the keep-the-best rule ----
        unique_rows = len(ident) == n     # identical (row, label) pairs cannot be told apart: no exchange trace for them
        if not unique_rows:
            res.hit("swap_trace_skipped_duplicate_rows")
        for t, e in enumerate(log if unique_rows else []):
            start = e["arr"]
            end = log[t + 1]["arr"] if t + 1 < len(log) else final_arr
            dr = draws[e["draws_at"]:(log[t + 1]["draws_at"] if t + 1 < len(log) else len(draws))]
            errs = [i for i, (a, b) in enumerate(zip(e["Yv"], e["preds"])) if a != b]
            nonproto = sum(1 for p in e["proto"] if p == 0)
            pos = {idv: k for k, idv in enumerate(start[0] + start[1])}
            line = f"swap {nt} {nv} {nonproto} {ints(e['proto'])} {len(errs)} {ints(errs)} {len(dr)} {ints(dr)}"
            ob = f"{ints(pos.get(v, -1) for v in end[0])} | {ints(pos.get(v, -1) for v in end[1])}"
            lines.append(line); obs.append(ob); metas.append(dict(meta, iteration=t))
            res.add_case(line, nontrivial=(len(errs) >= 1))
            res.hit("swap_with_errors" if errs else "swap_no_errors")
            if any(e["proto"][j] for j in dr):
                res.hit("swap_drew_a_prototype")
        import struct as _st
        line = f"iters {iters} {len(accs)} {ints(_st.unpack('<Q', _st.pack('<d', float(a)))[0] for a in accs)}"
        lines.append(line); obs.append(str(len(accs))); metas.append(meta)
        res.add_case(line, nontrivial=len(accs) >= 2)
        line = f"best {enc(-1.0)} {len(accs)} {ints(enc(a) for a in accs)}"
        lines.append(line); obs.append(str(best)); metas.append(meta)
        res.add_case(line, nontrivial=len(accs) >= 2)
        if case < 1:
            res.samples.append({"input": lines[-1][:200], "impl": obs[-1][:200]})

        # ---------------- prune ----------------
        Xt2, Yt2 = X[:nt].copy(), Y[:nt].copy()
        if len(set(Yt2.tolist())) < 2:
            Yt2[0], Yt2[1] = 0, 1
        Xv2, Yv2 = X[nt:].copy(), Yv.copy() if False else Y[nt:].copy()
        Yv2[0] = K - 1
        b2 = (Xt2.tobytes(), Yt2.tobytes(), Xv2.tobytes(), Yv2.tobytes())
        p = S.SupervisedOPF(distance=metric)
        fits = []
        real_fit = p.fit

        def fit_wrap(a, b, _f=real_fit):
            fits.append((np.array(a).copy(), np.array(b).copy()))
            return _f(a, b)
        p.fit = fit_wrap
        it2 = rng.choice([1, 2, 3])
        try:
            p.prune(Xt2, Yt2, Xv2, Yv2, n_iterations=it2)
        except Exception as ex:
            res.hit("prune_raised_" + type(ex).__name__)   # e.g. a pruned set left with a single class
            continue
        msgs = []
        if (Xt2.tobytes(), Yt2.tobytes(), Xv2.tobytes(), Yv2.tobytes()) != b2:
            res.violations.append({"property": "C07", "what": "prune modified the caller's arrays", "replay": meta})
        orig = Counter(key(r, l) for r, l in zip(Xt2, Yt2))
        fin = Counter((nd.features.tobytes(), nd.label) for nd in p.subgraph.nodes)
        if any(fin[k] > orig.get(k, 0) for k in fin):
            msgs.append("pruned training set is not a sub-multiset of the original (row/label pairing broken)")
        for k in range(len(fits) - 1):
            q = S.SupervisedOPF(distance=metric)
            q.fit(fits[k][0].copy(), fits[k][1].copy())
            q.predict(Xv2.copy())
            relv = [1 if nd.relevant != 0 else 0 for nd in q.subgraph.nodes]
            want_rows = [(fits[k][0][j].tobytes(), int(fits[k][1][j])) for j in range(len(relv)) if relv[j]]
            got_rows = [(r.tobytes(), int(l)) for r, l in zip(fits[k + 1][0], fits[k + 1][1])]
            if want_rows != got_rows:
                msgs.append(f"prune iteration {k + 1} did not retain exactly the relevant samples")
            if len({(fits[k][0][j].tobytes(), int(fits[k][1][j])) for j in range(len(relv))}) != len(relv):
                res.hit("prune_trace_skipped_duplicate_rows")
                continue
            line = f"prune {len(relv)} {ints(relv)}"
            idx_of = {}
            for j in range(len(relv)):
                idx_of.setdefault((fits[k][0][j].tobytes(), int(fits[k][1][j])), []).append(j)
            used = {}
            got_idx = []
            for rr in got_rows:
                c = used.get(rr, 0); used[rr] = c + 1
                got_idx.append(idx_of.get(rr, [-1] * (c + 1))[c] if c < len(idx_of.get(rr, [])) else -1)
            lines.append(line); obs.append(ints(got_idx)); metas.append(dict(meta, prune_iteration=k))
            res.add_case(line, nontrivial=(sum(relv) < len(relv)))
            res.hit("prune_step")
        viol(msgs, meta)
    # ---------------- prune on tie-rich data (labels must stay attached to their rows) ----------------
    for case in range(ncases * 6):
        nt = rng.choice([5, 6, 7, 8]); K = rng.choice([2, 2, 3])
        g = rng.choice([2, 3])
        Xt = np.array([[float(rng.randint(0, g)) for _ in range(2)] for _ in range(nt)])
        Yt = np.array([rng.randrange(K) for _ in range(nt)], dtype=int)
        Yt[0] = K - 1; Yt[1] = 0
        Xv, Yv = Xt.copy(), Yt.copy()           # validation = the training rows: many training nodes become relevant
        metric = rng.choice(["euclidean", "squared_euclidean", "manhattan"])
        meta = {"stream": "prune-ties", "Xt": Xt.tolist(), "Yt": Yt.tolist(), "metric": metric}
        p = S.SupervisedOPF(distance=metric)
        try:
            p.prune(Xt.copy(), Yt.copy(), Xv, Yv, n_iterations=rng.choice([1, 2]))
        except Exception as ex:
            res.hit("prune_ties_raised_" + type(ex).__name__)
            continue
        orig = Counter(key(r, l) for r, l in zip(Xt, Yt))
        fin = Counter((nd.features.tobytes(), nd.label) for nd in p.subgraph.nodes)
        if any(fin[k] > orig.get(k, 0) for k in fin):
            viol("pruned training set is not a sub-multiset of the original (a kept row carries another label)", meta)
        res.hit("prune_ties_checked")
        res.add_case("prune-ties " + repr(meta["Xt"]) + repr(meta["Yt"]) + metric, nontrivial=True)
    compare(res, lines, obs, metas)
    return res
