"""Shared helpers of the correspondence harness (DESIGN §2.2).

The real code is imported from /repo's working tree (the /venv install is editable and points
there; we additionally assert it).  Every random choice derives from one `random.Random`
seeded with VERIF_SEED."""
import hashlib
import json
import logging
import os
import struct
import subprocess
import sys
import tempfile
import time

REPO = os.environ.get("VERIF_REPO", "/repo")
VERIF = os.path.dirname(os.path.dirname(os.path.abspath(__file__)))
LEAN_DIR = os.path.join(VERIF, "lean")

_scratch = tempfile.mkdtemp(prefix="opfverif-")
os.chdir(_scratch)  # opfython writes opfython.log into the cwd
if REPO not in sys.path:
    sys.path.insert(0, REPO)
logging.disable(logging.CRITICAL)

import numpy as np  # noqa: E402
import warnings  # noqa: E402
warnings.filterwarnings("ignore")      # numpy's overflow/invalid warnings of the code under test are not findings
np.seterr(all="ignore")

FLOAT_MAX = sys.float_info.max


def load_opfython():
    import opfython  # noqa
    here = os.path.realpath(os.path.dirname(opfython.__file__))
    want = os.path.realpath(os.path.join(REPO, "opfython"))
    if here != want:
        raise RuntimeError(f"opfython imported from {here}, expected {want}")
    logging.disable(logging.CRITICAL)
    return opfython


def enc(f):
    """order-preserving encoding of a finite double into an integer (-0.0 and 0.0 -> 0)."""
    f = float(f)
    if f != f or f in (float("inf"), float("-inf")):
        raise ValueError("non-finite cost")
    (b,) = struct.unpack("<q", struct.pack("<d", f))
    return b if b >= 0 else -(b & 0x7FFFFFFFFFFFFFFF)


TOP = enc(FLOAT_MAX)


def ints(xs):
    return " ".join(str(int(x)) for x in xs)


def run_driver(lines, driver="Driver.lean", soft=False):
    """pipes the op lines to the Lean driver, returns its output lines (soft: None when the driver does not run,
    e.g. because a generated file it imports is a stub that does not build)."""
    if not lines:
        return []
    with tempfile.NamedTemporaryFile("w", suffix=".ops", delete=False, dir=_scratch) as f:
        f.write("\n".join(lines) + "\n")
        path = f.name
    t0 = time.time()
    with open(path) as fin:
        r = subprocess.run(["lake", "env", "lean", "--run", driver], cwd=LEAN_DIR,
                           stdin=fin, capture_output=True, text=True)
    os.unlink(path)
    if r.returncode != 0 and soft:
        run_driver.last_error = (r.stderr[-1500:] + r.stdout[-500:])
        return None
    if r.returncode != 0:
        raise RuntimeError("Lean driver failed: " + r.stderr[-2000:] + r.stdout[-2000:])
    out = r.stdout.split("\n")
    if out and out[-1] == "":
        out.pop()
    if len(out) != len(lines):
        raise RuntimeError(f"driver produced {len(out)} lines for {len(lines)} ops")
    run_driver.seconds += time.time() - t0
    return out


run_driver.seconds = 0.0


def sha(s):
    return hashlib.sha256(s.encode()).hexdigest()[:16]


class Result:
    """outcome of one stream: counts, branch counters, disagreements and oracle violations."""

    def __init__(self, name):
        self.name = name
        self.cases = 0
        self.hashes = set()
        self.nontrivial = set()
        self.branches = {}
        self.samples = []
        self.disagreements = []   # dicts: {case, input, impl, model}
        self.violations = []      # dicts: {property, what, replay-data}
        self.notes = []

    def hit(self, key, k=1):
        self.branches[key] = self.branches.get(key, 0) + k

    def add_case(self, line, nontrivial):
        self.cases += 1
        h = sha(line)
        self.hashes.add(h)
        if nontrivial:
            self.nontrivial.add(h)

    def summary(self):
        return {"stream": self.name, "cases": self.cases, "distinct": len(self.hashes),
                "distinct_nontrivial": len(self.nontrivial), "branches": self.branches,
                "disagreements": len(self.disagreements), "violations": len(self.violations),
                "notes": self.notes}


def compare(res, lines, impl_obs, metas=None):
    """runs the model on `lines`, records a disagreement for each differing observation."""
    model = run_driver(lines)
    raw = []
    for k, (l, a, b) in enumerate(zip(lines, impl_obs, model)):
        if a != b:
            sa, sb = str(a).split(" | "), str(b).split(" | ")
            segs = [i for i in range(max(len(sa), len(sb))) if (sa[i] if i < len(sa) else None) != (sb[i] if i < len(sb) else None)]
            raw.append({"stream": res.name, "case": k, "kind": l.split(" ", 1)[0], "segments": segs,
                        "input": l, "impl": a, "model": b, "meta": (metas[k] if metas else None)})
    # tier B (DESIGN §2.3): an exact (tier A) disagreement of a case is forgiven when the same case has a
    # lawful-run line (tier B) that agrees: the implementation only broke ties differently.
    tierb = {}
    for k, m in enumerate(metas or []):
        if isinstance(m, dict) and m.get("tier") == "B":
            tierb[m["caseid"]] = (impl_obs[k] == model[k])
    for d in raw:
        m = d["meta"] if isinstance(d["meta"], dict) else {}
        if m.get("tier") == "A" and tierb.get(m.get("caseid")) is True:
            res.hit("tierA_diverged_tierB_ok")
            continue
        res.disagreements.append(d)
    return model
