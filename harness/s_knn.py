"""streams `knn` (create_arcs / calculate_pdf / eliminate_maxima_height) and `cluster`
(`_clustering` of both density models, `propagate_labels`) against the Lean models L4/L5;
oracles for C12 and C13 on the real outputs."""
from common import *  # noqa
import struct

TINY = None
ONE = None
NEGTOP = None


def fb(f):
    return struct.unpack("<Q", struct.pack("<d", float(f)))[0]


def gen_matrix(rng, U, kind):
    M = np.zeros((U, U))
    for a in range(U):
        for b in range(a + 1, U):
            if kind == "lattice":
                v = float(rng.choice([1, 2, 3]))
            elif kind == "dups":
                v = float(rng.choice([0, 0, 1, 2]))
            elif kind == "tiny":
                v = rng.choice([1e-7, 2e-7, 5e-6])
            elif kind == "allequal":
                v = 2.5
            elif kind == "firstdup":
                # small-scale data (< 1) in which sample 0 has near-duplicates (distance 1e-7)
                v = 1e-7 if (a == 0 and b <= 3) else rng.uniform(0.01, 0.5)
            elif kind == "distinct":
                v = None
            else:
                v = rng.uniform(0.01, 10)
            M[a][b] = M[b][a] = v if v is not None else 0
            if kind == "asym":
                # a directed dissimilarity (a divergence, a travel cost): row i holds the distances FROM sample i
                M[a][b] = rng.uniform(0.01, 10); M[b][a] = rng.uniform(0.01, 10)
    if kind == "distinct":
        vals = rng.sample(range(1, 5 * U * U + 5), U * U)
        it = iter(vals)
        for a in range(U):
            for b in range(a + 1, U):
                M[a][b] = M[b][a] = next(it) / 4.0
    return M


def adj_ints(sg, n):
    return [[int(a) for a in sg.nodes[i].adjacency] for i in range(n)]


def lists_str(ls):
    return " , ".join(" ".join(str(x) for x in l) for l in ls)


def lists_tok(ls):
    return " ".join(f"{len(l)} {' '.join(str(x) for x in l)}".strip() for l in ls)


def sub_obs(sg, n, maxd):
    return (f"{lists_str(adj_ints(sg, n))} | {ints(enc(sg.nodes[i].radius) for i in range(n))} | "
            f"{ints(sg.nodes[i].n_plateaus for i in range(n))} | {enc(sg.density)} | {ints(enc(v) for v in maxd)}")


BOOST = int(os.environ.get("VERIF_BOOST", "1"))


def run(rng, tier, res=None, want=("arcs", "pdf", "cluster")):
    global TINY, ONE, NEGTOP
    load_opfython()
    from opfython.subgraphs.knn import KNNSubgraph
    from opfython.models.knn_supervised import KNNSupervisedOPF
    from opfython.models.unsupervised import UnsupervisedOPF
    TINY, ONE, NEGTOP = enc(0.00001), enc(1.0), enc(-FLOAT_MAX)
    res = res or Result("knn")
    scale = BOOST if tier == "quick" else 12
    lines, obs, metas = [], [], []

    def viol(prop, msgs, meta):
        for m in (msgs if isinstance(msgs, list) else [msgs])[:3]:
            res.violations.append({"property": prop, "what": m, "replay": meta})

    # ---- feature mode: zero-guarded ratio metrics on count data with shared exact zeros (C12 on what the caller supplied) ----
    import opfython.math.distance as _dist
    for case in range(40 * scale if "arcs" in want else 0):
        n = rng.choice([3, 4, 5, 6, 8]); d = rng.choice([3, 4, 5])
        metric = rng.choice(["canberra", "clark", "bray_curtis", "chi_squared", "divergence", "euclidean"])
        f_ = _dist.DISTANCES[metric]
        X = np.array([[float(rng.choice([0, 0, 0, 1, 2, 5])) for _ in range(d)] for _ in range(n)])
        for r in range(n):
            if X[r].sum() == 0:
                X[r][rng.randrange(d)] = 1.0
        X0 = X.copy()
        k = rng.randint(1, n - 1)
        sgf = KNNSubgraph(X, np.zeros(n, dtype=int))
        try:
            maxd = sgf.create_arcs(k, f_, False, None)
        except Exception as ex:
            viol("C12", f"create_arcs({metric}) raised {type(ex).__name__} on count data", {"metric": metric, "X": X0.tolist(), "k": k})
            continue
        Dm = [[float(f_(X0[a].copy(), X0[b].copy())) for b in range(n)] for a in range(n)]
        msgs = []
        for i in range(n):
            want_nb = sorted((j for j in range(n) if j != i), key=lambda j: (Dm[i][j], j))[:k]
            got_nb = [int(v) for v in sgf.nodes[i].adjacency]
            if [Dm[i][j] for j in got_nb] != [Dm[i][j] for j in want_nb]:
                msgs.append(f"{metric}: sample {i}: neighbours {got_nb} have distances {[Dm[i][j] for j in got_nb]}, the {k} smallest are "
                            f"{[Dm[i][j] for j in want_nb]} (distances evaluated on the samples as supplied)")
            elif sgf.nodes[i].radius != max(Dm[i][j] for j in want_nb):
                msgs.append(f"{metric}: sample {i}: radius {sgf.nodes[i].radius} != {max(Dm[i][j] for j in want_nb)}")
        viol("C12", msgs, {"metric": metric, "X": X0.tolist(), "k": k})
        if X.tobytes() != X0.tobytes():
            res.violations.append({"property": "C07", "what": f"create_arcs({metric}) modified the caller's feature matrix", "replay": {"metric": metric}})
        res.add_case(f"arcsfeat {metric} {n} {k} {case}", nontrivial=True); res.hit("arcs_feature_mode_sparse")
    fn = lambda a, b: 0.0  # noqa  (never called: pre-computed matrices)
    kinds = ["lattice", "lattice", "dups", "tiny", "allequal", "distinct", "distinct", "real", "real", "firstdup", "asym", "asym"]
    for case in range((480 if "cluster" in want else 320) * scale):
        n = rng.choice([1, 2, 3, 4, 5, 6, 7, 8, 10, 12 if tier == "quick" else 18])
        kind = rng.choice(kinds)
        extra = rng.choice([0, 0, 2])
        U = n + extra
        M = gen_matrix(rng, U, kind)
        I = rng.sample(range(U), n) if extra and rng.random() < 0.7 else None
        if n >= 3 and rng.random() < 0.12:
            # a bootstrap resample: identifiers drawn WITH replacement (two samples may be the same pool object, at distance 0)
            I = [rng.randrange(U) for _ in range(n)]
            res.hit("repeated_identifiers")
        idx = I if I is not None else list(range(n))
        K = rng.choice([1, 2, 3])
        lab = [rng.randrange(K) for _ in range(n)]
        sg = KNNSubgraph(np.zeros((n, 1)), np.array(lab, dtype=int), I=(np.array(I) if I is not None else None))
        warm = False
        if n >= 3 and rng.random() < 0.3:
            warm = True
            # an earlier complete cycle on the same subgraph (as the k-selection loops do): arcs, pdf, clustering, destroy
            k0 = rng.randint(1, n - 1)
            sg.create_arcs(k0, fn, True, M); sg.calculate_pdf(k0, fn, True, M)
            o0 = KNNSupervisedOPF(max_k=k0, distance="euclidean") if rng.random() < 0.5 else UnsupervisedOPF(min_k=1, max_k=k0, distance="euclidean")
            o0.subgraph = sg
            if isinstance(o0, UnsupervisedOPF):
                o0._clustering(k0)
            else:
                o0._clustering(False)
            sg.destroy_arcs(); sg.idx_nodes = []
            res.hit("warmup_cycle")
        w = [[enc(M[idx[p]][idx[q]]) for q in range(n)] for p in range(n)]
        wtok = ints(v for r in w for v in r)
        meta = {"stream": "knn", "n": n, "kind": kind, "I": I, "labels": lab, "M": M.tolist()}
        # one or two create_arcs calls (the second on the re-used subgraph)
        def pick_k():
            return rng.randint(1, max(1, n - 1)) if rng.random() < 0.75 else rng.randint(1, n + 2)
        ks = [pick_k()]
        if rng.random() < 0.35:
            ks.append(pick_k())
        for ci, k in enumerate(ks):
            prior = (enc(sg.density), adj_ints(sg, n), [sg.nodes[i].n_plateaus for i in range(n)],
                     [enc(sg.nodes[i].radius) for i in range(n)])
            junk = [np.full(k, 1e300), np.full(k + 1, 1e300), np.full(k + 1, 7.0)]
            del junk                      # freed blocks of the sizes create_arcs allocates: results must not depend on them
            maxd = sg.create_arcs(k, fn, True, M)
            line = (f"arcs {n} {k} {TOP} {TINY} {ONE} {wtok} {prior[0]} {lists_tok(prior[1])} "
                    f"{ints(prior[2])} {ints(prior[3])}")
            lines.append(" ".join(line.split())); obs.append(sub_obs(sg, n, maxd)); metas.append(dict(meta, k=k, call=ci))
            res.add_case(lines[-1], nontrivial=(n >= 3))
            res.hit("arcs_fresh" if ci == 0 else "arcs_reused"); res.hit("arcs_" + kind)
            if k > n - 1:
                res.hit("arcs_k_exceeds")
            if ci == 0 and not warm and case % 3 == 0:
                # C07: the same call on an equal fresh subgraph after a different allocation history gives the same result
                junk2 = [np.zeros(k), np.zeros(k + 1)]
                del junk2
                sgb = KNNSubgraph(np.zeros((n, 1)), np.array(lab, dtype=int), I=(np.array(I) if I is not None else None))
                maxd_b = sgb.create_arcs(k, fn, True, M)
                if [enc(v) for v in maxd_b] != [enc(v) for v in maxd] or enc(sgb.density) != enc(sg.density):
                    res.violations.append({"property": "C07", "what": f"create_arcs on equal fresh subgraphs returned {list(maxd)} / {list(maxd_b)} "
                                                                       f"(density bound {sg.density} / {sgb.density}): the result depends on the call history",
                                           "replay": dict(meta, k=k)})
                res.hit("c07_history_checked")
            # ---- C12, radius: on EVERY call, whatever the subgraph has been through (a re-used subgraph keeps a running density bound,
            # which is mirrored and not claimed; its radii are claimed: "its radius is the largest of them")
            FMAXV = FLOAT_MAX
            rmsgs = []
            for i in range(n):
                near = sorted(float(M[idx[i]][idx[j]]) for j in range(n) if j != i)[:k]
                near = [v for v in near if v != FMAXV]
                wantr = max(near) if near else 0.0
                if all(v == v for v in near) and float(sg.nodes[i].radius) != wantr:
                    rmsgs.append(f"create_arcs call {ci + 1} on this subgraph (k={k}): node {i}: radius {sg.nodes[i].radius} != largest of its "
                                 f"{len(near)} smallest distances {wantr}")
            viol("C12", rmsgs, dict(meta, k=k, ks=ks[:ci + 1], warm=bool(warm)))
            res.hit("c12_radius_checked_every_call")
            if ci == 0 and not warm:
                # ---- C12 oracle on a fresh subgraph (a re-used one keeps a running density bound: mirrored, not claimed) ----
                msgs = []
                allmax = 0.0
                rank_max = [0.0] * k
                for i in range(n):
                    a = [int(v) for v in sg.nodes[i].adjacency]
                    others = [j for j in range(n) if j != i]
                    m = min(k, n - 1)
                    if len(a) != m or len(set(a)) != len(a) or i in a or any(j not in others for j in a):
                        msgs.append(f"node {i}: adjacency {a} is not {m} distinct other samples")
                        continue
                    ds = [M[idx[i]][idx[j]] for j in a]
                    if any(ds[t] > ds[t + 1] for t in range(len(ds) - 1)):
                        msgs.append(f"node {i}: neighbour distances {ds} not ascending")
                    rest = [M[idx[i]][idx[j]] for j in others if j not in a]
                    if a and rest and max(ds) > min(rest):
                        msgs.append(f"node {i}: a non-neighbour is closer ({min(rest)}) than neighbour at {max(ds)}")
                    if sg.nodes[i].radius != (max(ds) if ds else 0.0):
                        msgs.append(f"node {i}: radius {sg.nodes[i].radius} != largest neighbour distance {max(ds) if ds else 0.0}")
                    for t, dv in enumerate(ds):
                        rank_max[t] = max(rank_max[t], dv)
                        allmax = max(allmax, dv)
                if list(maxd) != rank_max:
                    msgs.append(f"per-rank maxima {list(maxd)} != {rank_max}")
                want_bound = allmax if allmax >= 0.00001 else 1
                if sg.density != want_bound:
                    msgs.append(f"density bound {sg.density} != {want_bound}")
                viol("C12", msgs, dict(meta, k=k))
        k = ks[-1]
        # ---- pdf (needs k neighbours per node) ----
        if "pdf" in want and k <= n - 1 and all(len(sg.nodes[i].adjacency) >= k for i in range(n)):
            if rng.random() < 0.4 and len(maxd) >= 1:
                # as the best-k search does: arcs created once for the largest k, then for a smaller k the bound is
                # reset to that rank's maximum before the densities are estimated
                k2 = rng.randint(1, k)
                if float(maxd[k2 - 1]) > 0:
                    k = k2
                    sg.density = float(maxd[k - 1])
                    res.hit("pdf_after_bound_reset")
            bound = sg.density
            sg.calculate_pdf(k, fn, True, M)
            const = sg.constant
            exps = [[np.exp(-M[idx[i]][idx[int(sg.nodes[i].adjacency[t])]] / const) for t in range(k)] for i in range(n)]
            line = f"pdf {k} {n} {fb(bound)} {ints(fb(e) for r in exps for e in r)}"
            ob = (f"{fb(sg.constant)} | {fb(sg.min_density)} | {fb(sg.max_density)} | "
                  f"{ints(fb(sg.nodes[i].density) for i in range(n))} | {ints(fb(sg.nodes[i].cost) for i in range(n))}")
            lines.append(line); obs.append(ob); metas.append(dict(meta, k=k, call="pdf"))
            res.add_case(line, nontrivial=(n >= 3)); res.hit("pdf")
            # C12 oracle: formulas
            msgs = []
            pdf = [sum(r) / (k + 1) for r in exps]
            mn, mx = min(pdf), max(pdf)
            dens = [sg.nodes[i].density for i in range(n)]
            if abs(const - 2 * bound / 9) > 1e-12 * abs(const):
                msgs.append(f"constant {const} != 2/9 of the bound {bound}")
            if abs(sg.min_density - mn) > 1e-12 * max(1, abs(mn)) or abs(sg.max_density - mx) > 1e-12 * max(1, abs(mx)):
                msgs.append(f"recorded min/max {sg.min_density},{sg.max_density} != {mn},{mx}")
            if mn == mx:
                res.hit("pdf_all_equal")
                if any(d != 1000 for d in dens):
                    msgs.append("all-equal densities not mapped to MAX_DENSITY")
            else:
                for i in range(n):
                    wv = 999 * (pdf[i] - mn) / (mx - mn) + 1
                    if abs(dens[i] - wv) > 1e-9 * max(1, abs(wv)):
                        msgs.append(f"density[{i}]={dens[i]} != affine map {wv}")
                if abs(min(dens) - 1) > 1e-9 or abs(max(dens) - 1000) > 1e-6:
                    msgs.append(f"density range [{min(dens)}, {max(dens)}] != [1, 1000]")
                for a in range(n):
                    for b in range(n):
                        if pdf[a] < pdf[b] and dens[a] > dens[b]:
                            msgs.append("density map does not preserve order")
            if any(abs(sg.nodes[i].cost - (dens[i] - 1)) > 1e-9 for i in range(n)):
                msgs.append("initial cost != density - 1")
            viol("C12", msgs, dict(meta, k=k))
            # ---- eliminate maxima ----
            if rng.random() < 0.5:
                h = rng.choice([-1.0, 0.0, 0.5, 3.0, 400.0, 2000.0])
                before = [(sg.nodes[i].density, sg.nodes[i].cost) for i in range(n)]
                sg.eliminate_maxima_height(h)
                line = f"elim {fb(h)} {n} {ints(v for d, c in before for v in (fb(d), fb(c)))}"
                lines.append(line); obs.append(ints(fb(sg.nodes[i].cost) for i in range(n))); metas.append(dict(meta, h=h))
                res.add_case(line, nontrivial=True); res.hit("elim_pos" if h > 0 else "elim_nonpos")
                msgs = []
                for i, (d, c) in enumerate(before):
                    wv = max(d - h, 0) if h > 0 else c
                    if sg.nodes[i].cost != wv:
                        msgs.append(f"cost[{i}] after eliminating height {h} is {sg.nodes[i].cost}, expected {wv}")
                viol("C12", msgs, dict(meta, h=h))
            # optional hand-set plateau densities (few distinct values)
            hs = rng.random()
            if hs < 0.3:
                vals = rng.sample([3.0, 4.0, 5.0, 6.0, 8.0, 13.0], rng.choice([1, 2, 3, 4]))     # unit gaps: cost of a root = density - 1 of another
                for i in range(n):
                    sg.nodes[i].density = rng.choice(vals)
                    sg.nodes[i].cost = sg.nodes[i].density - 1
                res.hit("cluster_handset_density")
            elif hs < 0.6:
                # densities squeezed into a band narrower than one unit (what a far outlier does to the rest)
                base = rng.choice([2.0, 500.0, 999.0])
                for i in range(n):
                    sg.nodes[i].density = base + rng.choice([0.0, 0.2, 0.4, 0.6, 0.8, 1.0, 1.3, 1e-9, 2e-7, 0.2 + 1e-8, 0.2 - 3e-7]) if rng.random() < 0.85 else 1.0
                    sg.nodes[i].cost = sg.nodes[i].density - 1
                res.hit("cluster_narrow_band_density")
            # optional hand-set adjacency: any lists of k distinct other nodes (asymmetric arcs are the rule
            # in a k-NN graph; random ones exercise structures that small metric data rarely produces)
            if "cluster" in want and n >= 3 and rng.random() < (0.8 if 0.3 <= hs < 0.6 else 0.3):
                for i in range(n):
                    others = [j for j in range(n) if j != i]
                    sg.nodes[i].adjacency = [float(j) for j in rng.sample(others, k)]
                    sg.nodes[i].n_plateaus = 0
                res.hit("cluster_handset_adjacency")
            # ---- clustering ----
            if "cluster" in want:
                unsup = rng.random() < 0.5
                force = (not unsup) and rng.random() < 0.5
                prior_order = [rng.randrange(n) for _ in range(rng.choice([0, 0, 2]))]
                sg.idx_nodes = list(prior_order)
                inp_adj = adj_ints(sg, n)
                inp_np = [sg.nodes[i].n_plateaus for i in range(n)]
                dens0 = [sg.nodes[i].density for i in range(n)]
                cost0 = [sg.nodes[i].cost for i in range(n)]
                if unsup:
                    o = UnsupervisedOPF(min_k=1, max_k=max(1, k), distance="euclidean")
                    o.subgraph = sg
                    o._clustering(k)
                else:
                    o = KNNSupervisedOPF(max_k=max(1, k), distance="euclidean")
                    o.subgraph = sg
                    o._clustering(force)
                nd = sg.nodes
                labs = [nd[i].cluster_label if unsup else nd[i].predicted_label for i in range(n)]
                roots = [nd[i].root for i in range(n)]
                preds = [nd[i].pred for i in range(n)]
                costs = [nd[i].cost for i in range(n)]
                if unsup:
                    o.propagate_labels()
                    prop = [nd[i].predicted_label for i in range(n)]
                else:
                    prop = [lab[roots[i]] if 0 <= roots[i] < n else -99 for i in range(n)]   # out-of-range roots must surface as a disagreement
                line = (f"cluster {1 if unsup else 0} {1 if force else 0} {TOP} {NEGTOP} {k} {n} {lists_tok(inp_adj)} "
                        f"{ints(inp_np)} {ints(enc(d) for d in dens0)} {ints(enc(c) for c in cost0)} {ints(lab)} "
                        f"{len(prior_order)} {ints(prior_order)}")
                ob = (f"{lists_str(adj_ints(sg, n))} | {ints(nd[i].n_plateaus for i in range(n))} | {ints(preds)} | "
                      f"{ints(roots)} | {ints(labs)} | {ints(enc(c) for c in costs)} | {ints(sg.idx_nodes)} | "
                      f"{sg.n_clusters if unsup else 0} | {ints(prop)}")
                lines.append(" ".join(line.split())); obs.append(ob)
                metas.append(dict(meta, k=k, unsup=unsup, force=force, dens=dens0, cost=cost0, adj=inp_adj, nplat=inp_np,
                                  caseid=f"clu{case}", tier="A"))
                # tier B: the real removal order replayed through the relational semantics
                adj_aft = adj_ints(sg, n)
                visited = [adj_aft[i][: nd[i].n_plateaus + k] if unsup else adj_aft[i] for i in range(n)]
                new_order = list(sg.idx_nodes)[len(prior_order):]
                lline = (f"lawclu {1 if unsup else 0} {1 if force else 0} {NEGTOP} {n} {lists_tok(visited)} {ints(enc(d) for d in dens0)} "
                         f"{ints(enc(c) for c in cost0)} {ints(lab)} {len(new_order)} {ints(new_order)}")
                lob = (f"lawful 1 | {ints(enc(c) for c in costs)} | {ints(preds)} | {ints(roots)} | {ints(labs)} | "
                       f"{sg.n_clusters if unsup else 0}")
                lines.append(" ".join(lline.split())); obs.append(lob)
                metas.append({"stream": "lawclu", "caseid": f"clu{case}", "tier": "B"})
                res.add_case(lines[-1], nontrivial=(n >= 3))
                res.hit("cluster_unsup" if unsup else ("cluster_knn_force" if force else "cluster_knn"))
                if len(set(dens0)) < n:
                    res.hit("cluster_plateaus")
                # ---- C13 oracle ----
                msgs = []
                adj_after = adj_ints(sg, n)
                for i in range(n):
                    eff = adj_after[i][: nd[i].n_plateaus + k] if unsup else adj_after[i]
                    # every arc is a k-NN arc or the reverse of one on a plateau
                    for j in adj_after[i]:
                        if not (j in inp_adj[i] or (i in inp_adj[j] and dens0[i] == dens0[j])):
                            msgs.append(f"arc {i}->{j} after symmetrisation is neither a k-NN arc nor a plateau reverse arc")
                    x = i; seen = set()
                    while preds[x] != -1 and x not in seen:
                        seen.add(x); x = preds[x]
                    if preds[x] != -1:
                        msgs.append(f"predecessor cycle from {i}")
                        continue
                    if roots[i] != x:
                        msgs.append(f"root[{i}]={roots[i]} but the predecessor chain ends at {x}")
                    if labs[i] != labs[x]:
                        msgs.append(f"label/cluster of {i} ({labs[i]}) differs from its root's ({labs[x]})")
                    if preds[i] == -1:
                        if costs[i] != dens0[i]:
                            msgs.append(f"root {i}: cost {costs[i]} != density {dens0[i]}")
                    else:
                        p = preds[i]
                        effp = adj_after[p][: nd[p].n_plateaus + k] if unsup else adj_after[p]
                        if i not in effp:
                            msgs.append(f"{i} is not a graph neighbour of its predecessor {p}")
                        if costs[i] != min(costs[p], dens0[i]):
                            msgs.append(f"cost[{i}]={costs[i]} != min(cost[{p}]={costs[p]}, density={dens0[i]})")
                        if not (costs[i] > cost0[i]):
                            msgs.append(f"cost[{i}]={costs[i]} not above its initial cost {cost0[i]}")
                        if force and lab[p] != lab[i]:
                            msgs.append(f"forced-prototype clustering linked {p}->{i} across classes")
                    if all(abs(cost0[t] - (dens0[t] - 1)) < 1e-9 for t in range(n)) and not dens0[i] < dens0[x] + 1:
                        msgs.append(f"density[{i}]={dens0[i]} exceeds its root's {dens0[x]} by 1 or more")
                    if not (0 <= roots[i] < n):
                        msgs.append(f"root[{i}]={roots[i]} is not a sample position")
                    elif prop[i] != lab[roots[i]]:
                        msgs.append(f"propagated label of {i} is {prop[i]}, root's true label is {lab[roots[i]]}")
                rts = [i for i in range(n) if preds[i] == -1]
                if unsup:
                    if sg.n_clusters != len(rts):
                        msgs.append(f"n_clusters={sg.n_clusters} but {len(rts)} roots")
                    if sorted(labs[r] for r in rts) != list(range(len(rts))):
                        msgs.append(f"root identifiers {sorted(labs[r] for r in rts)} are not 0..{len(rts) - 1}")
                else:
                    for r in rts:
                        if labs[r] != lab[r]:
                            msgs.append(f"root {r} assigned {labs[r]}, own label {lab[r]}")
                    if force and labs != lab:
                        viol("C04", f"forced-prototype KNN clustering assigned {labs}, true labels {lab}", metas[-1])
                viol("C13", msgs, metas[-1])
        if case < 2:
            res.samples.append({"input": lines[-1][:300], "impl": obs[-1][:300]})
    compare(res, lines, obs, metas)
    return res
