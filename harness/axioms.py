"""The fixed axiom table of C08 and the hand-written closed forms of C06 (reference definitions:
Cha 2007, "Comprehensive survey on distance/similarity measures between probability density
functions"; Abu Alfeilat et al. 2019).  Independent of /repo: nothing here imports opfython.
Closed forms are evaluated in 60-digit decimal arithmetic."""
import decimal
from decimal import Decimal as D

decimal.getcontext().prec = 60

# domain: real = any reals, nonneg = entries >= 0, pos = entries > 0, prob = positive, sums to 1
# sym = symmetric, nn = non-negative, zs = zero on identical vectors, tri = triangle inequality
TABLE = {
    "additive_symmetric": ("pos", 1, 1, 1, 0), "average_euclidean": ("real", 1, 1, 1, 1),
    "bhattacharyya": ("prob", 1, 1, 1, 0), "bray_curtis": ("pos", 1, 1, 1, 0),
    "canberra": ("pos", 1, 1, 1, 1), "chebyshev": ("real", 1, 1, 1, 1),
    "chi_squared": ("pos", 1, 1, 1, 0), "chord": ("pos", 1, 1, 1, 0), "clark": ("pos", 1, 1, 1, 0),
    "cosine": ("pos", 1, 1, 1, 0), "dice": ("pos", 1, 1, 1, 0), "divergence": ("pos", 1, 1, 1, 0),
    "euclidean": ("real", 1, 1, 1, 1), "gaussian": ("real", 1, 1, 0, 0), "gower": ("real", 1, 1, 1, 1),
    "hamming": ("real", 1, 1, 1, 1), "hassanat": ("real", 1, 1, 1, 0), "hellinger": ("nonneg", 1, 1, 1, 1),
    "jaccard": ("pos", 1, 1, 1, 0), "jeffreys": ("pos", 1, 1, 1, 0), "jensen": ("pos", 1, 1, 1, 0),
    "jensen_shannon": ("pos", 1, 1, 1, 0), "k_divergence": ("prob", 0, 1, 1, 0),
    "kulczynski": ("pos", 1, 1, 1, 0), "kullback_leibler": ("prob", 0, 1, 1, 0),
    "log_euclidean": ("real", 1, 1, 1, 1), "log_squared_euclidean": ("real", 1, 1, 1, 0),
    "lorentzian": ("real", 1, 1, 1, 1), "manhattan": ("real", 1, 1, 1, 1), "matusita": ("nonneg", 1, 1, 1, 1),
    "max_symmetric": ("pos", 1, 1, 1, 0), "mean_censored_euclidean": ("pos", 1, 1, 1, 0),
    "min_symmetric": ("pos", 1, 1, 1, 0), "neyman": ("pos", 0, 1, 1, 0),
    "non_intersection": ("real", 1, 1, 1, 1), "pearson": ("pos", 0, 1, 1, 0), "sangvi": ("pos", 1, 1, 1, 0),
    "soergel": ("pos", 1, 1, 1, 1), "squared": ("pos", 1, 1, 1, 0), "squared_chord": ("nonneg", 1, 1, 1, 0),
    "squared_euclidean": ("real", 1, 1, 1, 0), "statistic": ("pos", 0, 0, 1, 0), "topsoe": ("pos", 1, 1, 1, 0),
    "vicis_symmetric1": ("pos", 1, 1, 1, 0), "vicis_symmetric2": ("pos", 1, 1, 1, 0),
    "vicis_symmetric3": ("pos", 1, 1, 1, 0), "vicis_wave_hedges": ("pos", 1, 1, 1, 0),
}
# metrics wrapped by avoid_zero_division (arguments shifted by EPSILON = 1e-20 first)
SHIFTED = {"additive_symmetric", "bhattacharyya", "bray_curtis", "canberra", "chi_squared", "chord", "clark", "cosine",
           "dice", "divergence", "hassanat", "jaccard", "jeffreys", "jensen", "jensen_shannon", "k_divergence",
           "kulczynski", "kullback_leibler", "max_symmetric", "mean_censored_euclidean", "min_symmetric", "neyman",
           "pearson", "sangvi", "soergel", "squared", "statistic", "topsoe", "vicis_symmetric1", "vicis_symmetric2",
           "vicis_symmetric3", "vicis_wave_hedges"}
EPS = D("1e-20")
MAXW = D(100000)


def _s(it):
    t = D(0)
    for v in it:
        t += v
    return t


def ln(v):
    return v.ln()


def sq(v):
    return v.sqrt()


def _hass(a, b):
    mn, mx = min(a, b), max(a, b)
    if mn >= 0:
        return 1 - (1 + mn) / (1 + mx)
    return 1 - (1 + mn + abs(mn)) / (1 + mx + abs(mn))


CLOSED = {
    "additive_symmetric": lambda x, y: 2 * _s((a - b) ** 2 * (a + b) / (a * b) for a, b in zip(x, y)),
    "average_euclidean": lambda x, y: sq(_s((a - b) ** 2 for a, b in zip(x, y)) / len(x)),
    "bhattacharyya": lambda x, y: -ln(_s(sq(a * b) for a, b in zip(x, y))),
    "bray_curtis": lambda x, y: _s(abs(a - b) for a, b in zip(x, y)) / _s(a + b for a, b in zip(x, y)),
    "canberra": lambda x, y: _s(abs(a - b) / (abs(a) + abs(b)) for a, b in zip(x, y)),
    "chebyshev": lambda x, y: max(abs(a - b) for a, b in zip(x, y)),
    "chi_squared": lambda x, y: D("0.5") * _s((a - b) ** 2 / (a + b) for a, b in zip(x, y)),
    "chord": lambda x, y: sq(max(D(0), 2 - 2 * _s(a * b for a, b in zip(x, y)) / (sq(_s(a * a for a in x)) * sq(_s(b * b for b in y))))),
    "clark": lambda x, y: sq(_s(((a - b) / abs(a + b)) ** 2 for a, b in zip(x, y))),
    "cosine": lambda x, y: 1 - _s(a * b for a, b in zip(x, y)) / (sq(_s(a * a for a in x)) * sq(_s(b * b for b in y))),
    "dice": lambda x, y: 1 - 2 * _s(a * b for a, b in zip(x, y)) / (_s(a * a for a in x) + _s(b * b for b in y)),
    "divergence": lambda x, y: 2 * _s((a - b) ** 2 / (a + b) ** 2 for a, b in zip(x, y)),
    "euclidean": lambda x, y: sq(_s((a - b) ** 2 for a, b in zip(x, y))),
    "gaussian": lambda x, y: (-sq(_s((a - b) ** 2 for a, b in zip(x, y)))).exp(),
    "gower": lambda x, y: _s(abs(a - b) for a, b in zip(x, y)) / len(x),
    "hamming": lambda x, y: D(sum(1 for a, b in zip(x, y) if a != b)),
    "hassanat": lambda x, y: _s(_hass(a, b) for a, b in zip(x, y)),
    "hellinger": lambda x, y: sq(2 * _s((sq(a) - sq(b)) ** 2 for a, b in zip(x, y))),
    "jaccard": lambda x, y: _s((a - b) ** 2 for a, b in zip(x, y)) / (_s(a * a for a in x) + _s(b * b for b in y) - _s(a * b for a, b in zip(x, y))),
    "jeffreys": lambda x, y: _s((a - b) * ln(a / b) for a, b in zip(x, y)),
    "jensen": lambda x, y: D("0.5") * _s((a * ln(a) + b * ln(b)) / 2 - (a + b) / 2 * ln((a + b) / 2) for a, b in zip(x, y)),
    "jensen_shannon": lambda x, y: D("0.5") * (_s(a * ln(2 * a / (a + b)) for a, b in zip(x, y)) + _s(b * ln(2 * b / (a + b)) for a, b in zip(x, y))),
    "k_divergence": lambda x, y: _s(a * ln(2 * a / (a + b)) for a, b in zip(x, y)),
    "kulczynski": lambda x, y: _s(abs(a - b) for a, b in zip(x, y)) / _s(min(a, b) for a, b in zip(x, y)),
    "kullback_leibler": lambda x, y: _s(a * ln(a / b) for a, b in zip(x, y)),
    "log_euclidean": lambda x, y: MAXW * ln(1 + sq(_s((a - b) ** 2 for a, b in zip(x, y)))),
    "log_squared_euclidean": lambda x, y: MAXW * ln(1 + _s((a - b) ** 2 for a, b in zip(x, y))),
    "lorentzian": lambda x, y: _s(ln(1 + abs(a - b)) for a, b in zip(x, y)),
    "manhattan": lambda x, y: _s(abs(a - b) for a, b in zip(x, y)),
    "matusita": lambda x, y: sq(_s((sq(a) - sq(b)) ** 2 for a, b in zip(x, y))),
    "max_symmetric": lambda x, y: max(_s((a - b) ** 2 / a for a, b in zip(x, y)), _s((a - b) ** 2 / b for a, b in zip(x, y))),
    "mean_censored_euclidean": lambda x, y: sq(_s((a - b) ** 2 for a, b in zip(x, y)) / sum(1 for a, b in zip(x, y) if a + b != 0)),
    "min_symmetric": lambda x, y: min(_s((a - b) ** 2 / a for a, b in zip(x, y)), _s((a - b) ** 2 / b for a, b in zip(x, y))),
    "neyman": lambda x, y: _s((a - b) ** 2 / a for a, b in zip(x, y)),
    "non_intersection": lambda x, y: D("0.5") * _s(abs(a - b) for a, b in zip(x, y)),
    "pearson": lambda x, y: _s((a - b) ** 2 / b for a, b in zip(x, y)),
    "sangvi": lambda x, y: 2 * _s((a - b) ** 2 / (a + b) for a, b in zip(x, y)),
    "soergel": lambda x, y: _s(abs(a - b) for a, b in zip(x, y)) / _s(max(a, b) for a, b in zip(x, y)),
    "squared": lambda x, y: _s((a - b) ** 2 / (a + b) for a, b in zip(x, y)),
    "squared_chord": lambda x, y: _s((sq(a) - sq(b)) ** 2 for a, b in zip(x, y)),
    "squared_euclidean": lambda x, y: _s((a - b) ** 2 for a, b in zip(x, y)),
    "statistic": lambda x, y: _s((a - (a + b) / 2) / ((a + b) / 2) for a, b in zip(x, y)),
    "topsoe": lambda x, y: _s(a * ln(2 * a / (a + b)) for a, b in zip(x, y)) + _s(b * ln(2 * b / (a + b)) for a, b in zip(x, y)),
    "vicis_symmetric1": lambda x, y: _s((a - b) ** 2 / min(a, b) ** 2 for a, b in zip(x, y)),
    "vicis_symmetric2": lambda x, y: _s((a - b) ** 2 / min(a, b) for a, b in zip(x, y)),
    "vicis_symmetric3": lambda x, y: _s((a - b) ** 2 / max(a, b) for a, b in zip(x, y)),
    "vicis_wave_hedges": lambda x, y: _s(abs(a - b) / min(a, b) for a, b in zip(x, y)),
}


def closed(name, x, y):
    """reference value for float vectors x, y (shifted by EPSILON for the wrapped metrics)."""
    dx = [D(float(v)) for v in x]
    dy = [D(float(v)) for v in y]
    if name in SHIFTED:
        dx = [v + EPS for v in dx]
        dy = [v + EPS for v in dy]
    return CLOSED[name](dx, dy)
