"""Per-property wiring: which Lean modules hold the theorems, which correspondence streams tie the
models they are about to /repo, and how a run is turned into a verdict and an evidence file."""
import hashlib
import json
import os
import random
import time

from common import VERIF, Result, run_driver

TRUSTED = [
    "Lean 4.33.0 kernel; axioms allowed in property theorems: propext, Classical.choice, Quot.sound (audited by #print axioms each run)",
    "Mathlib v4.33.0 modules imported one at a time by Lemmas/ and Props/ files",
    "tools/translate.py (Python ast -> Lean Gen/*.lean) and its reading of Python/numpy semantics",
    "hand-written executable models L0-L10 in lean/OpfVerif/Model, tied to /repo by differential execution on generated inputs (sampling)",
    "order-preserving encoding of finite binary64 values into Int used by the harness",
    "CPython, numpy, numba, libm, pickle, struct, json, the file system: modelled, not verified",
]


def _stream(name):
    import importlib
    return importlib.import_module(name)


# stream key -> (module, kwargs)
STREAMS = {
    "heap": ("s_heap", {}),
    "prim": ("s_forest", {"want": ("prim",)}),
    "fit": ("s_forest", {"want": ("fit",)}),
    "semi": ("s_forest", {"want": ("semi",)}),
    "forest": ("s_forest", {"want": ("prim", "fit", "semi")}),
    "dist": ("s_dist", {}),
    "knn": ("s_knn", {"want": ("arcs", "pdf")}),
    "cluster": ("s_knn", {"want": ("arcs", "pdf", "cluster")}),
    "knnpred": ("s_knnmodel", {"want": ("knnpred",)}),
    "measures": ("s_measures", {}),
    "stream": ("s_stream", {}),
    "learn": ("s_learn", {}),
    "persist": ("s_persist", {}),
    "precomp": ("s_precomp", {}),
    "c11": ("s_c11", {}),
    "select": ("s_knnmodel", {"want": ("select",)}),
}

P = "OpfVerif.Props."
PROPS = {
    # fit line segments: 0 proto, 1 cost, 2 pred, 3 assigned label, 4 true label, 5 order, 6 drained, 7 predictions, 8 relevant
    "C01": {"modules": [P + "C01", P + "C01Exec", P + "C01Refine", P + "C01Gen", P + "C01Build"], "streams": ["fit", "learn"], "min_classes": 2,
            "relevant": {"fit": [1, 2, 3, 5, 6], "lawfit": None}},
    "C02": {"modules": [P + "C02", P + "C02Exec", P + "C02Weight", P + "C02WeightGraph", P + "C02Refine", P + "C02Gen"], "streams": ["prim", "fit", "semi", "learn"],
            "relevant": {"prim": None, "lawprim": None, "fit": [0]}},
    "C03": {"modules": [P + "C03", P + "C03Fit", P + "C03Refine", P + "C03Gen"], "streams": ["fit", "semi", "persist"], "relevant": {"predict": [0]}},
    "C04": {"modules": [P + "C04", P + "C04Gen", P + "C13", P + "C13Refine", P + "C13Gen"], "streams": ["fit", "cluster", "select", "learn"],
            "relevant": {"fit": [3], "cluster": [4]}},
    "C05": {"modules": [P + "C05", P + "C05Refine", P + "C05Gen"], "streams": ["heap"]},
    "C06": {"modules": [P + "C06", P + "C06b", P + "C06Models"], "streams": ["dist", "persist", "precomp"]},
    "C07": {"modules": [P + "C07"], "streams": ["dist", "fit", "select", "knn", "precomp", "stream", "measures"], "relevant": {"dist": None}},
    "C09": {"modules": [P + "C09", P + "C09Gen", P + "C03Refine", P + "C03Gen", P + "C14Refine", P + "C14Gen"], "streams": ["fit", "semi", "knnpred"], "relevant": {"predict": [0], "knnq": None}},
    "C15": {"modules": [P + "C15", P + "C15Refine", P + "C15Gen"], "streams": ["semi", "precomp"], "min_classes": 2, "relevant": {"fit": [0, 1, 2, 3, 4, 5, 6], "lawfit": None}},
    "C16": {"modules": [P + "C16", P + "C16Cut", P + "C16Pipeline", P + "C16Refine", P + "C16SelRefine"], "streams": ["select"], "relevant": {"selmax": None, "selcut": None, "ncut": None, "unsfit": None, "knnfit": None}},
    "C10": {"modules": [P + "C10", P + "C10Refine", P + "C10Gen", P + "C10Load"], "streams": ["precomp", "fit"], "relevant": {"fit": [0, 1, 2, 3, 5], "predict": [0]}},
    "C11": {"modules": [P + "C11Map", P + "C11Family", P + "C11Perm", P + "C11Registry", P + "C11Gen", P + "C11GenPerm"], "streams": ["c11", "fit"], "relevant": {"fit": [0, 1, 2, 3, 5], "predict": [0]}},
    "C17": {"modules": [P + "C17", P + "C17Iter", P + "C17Refine", P + "C17Gen", P + "C17LearnRefine", P + "C17LearnAny", P + "C17PruneRefine"], "streams": ["learn", "fit", "measures"], "relevant": {"swap": None, "best": None, "prune": None, "iters": None, "predict": [1]}},
    "C18": {"modules": [P + "C18", P + "C18Refine", P + "C18ParseRefine", P + "C18ConvRefine", P + "C18Load", P + "C18Chain"], "streams": ["stream"]},
    "C19": {"modules": [P + "C19"], "streams": ["persist"]},
    "C20": {"modules": [P + "C20", P + "C20Refine", P + "C20NormRefine"], "streams": ["measures"]},
    "C12": {"modules": [P + "C12Arcs", P + "C12Pdf", P + "C12Refine", P + "C12PdfRefine", P + "C12Gen", P + "C13PropagateRefine"], "streams": ["knn"]},
    "C13": {"modules": [P + "C13", P + "C13Rel", P + "C13Refine", P + "C13Gen", P + "C13PropagateRefine"], "streams": ["cluster", "select"]},
    "C14": {"modules": [P + "C14", P + "C12Pdf", P + "C14Refine", P + "C14Gen"], "streams": ["knnpred", "persist"]},
    "C08": {"modules": [P + "C08", P + "C08Symm", P + "C08Self", P + "C08Metric", P + "C08Nonneg", P + "C08Defined"], "streams": ["dist"]},
}

def run_streams(pid, cfg, tier, seed, extra_round=0):
    results = []
    for k, key in enumerate(cfg["streams"]):
        modname, kw = STREAMS[key]
        mod = _stream(modname)
        rng = random.Random(f"{seed}/{key}/{extra_round}")
        res = Result(key)
        res.seed_key = f"{seed}/{key}/{extra_round}"
        t = time.time()
        import numpy as _np
        err0 = _np.geterr()
        try:
            try:
                mod.run(rng, tier, res=res, **kw)
            finally:
                err1 = _np.geterr()
                if err1 != err0:
                    # process-wide numpy floating-point error handling is state of the CALLER's process: a library call that
                    # leaves it changed makes later, unrelated computations behave differently (C07)
                    res.violations.append({"property": "C07", "what": f"stream {key}: numpy's process-wide floating-point error handling was "
                                           f"{err0} before the library was exercised and is {err1} afterwards (np.seterr without restoring it)",
                                           "replay": {"stream": key, "seed_key": res.seed_key}})
                    _np.seterr(**err0)
        except Exception as ex:
            # an exception that escapes a stream: if it was RAISED INSIDE the code under test (innermost frame under
            # /repo's opfython), or is an index/attribute error of the harness reading a corrupted structure the code
            # under test handed back, it is evidence about the code (reported as a violation with the traceback as
            # replay); anything else is a defect of the harness and stays an infrastructure error (exit 2).
            import traceback
            tb = traceback.extract_tb(ex.__traceback__)
            inner = tb[-1].filename if tb else ""
            through = any("/opfython/" in fr.filename for fr in tb)
            nonfinite = isinstance(ex, ValueError) and "non-finite cost" in str(ex)
            if nonfinite:
                # the encoder of the line protocol met a NaN / infinity among values the code under test handed back where the
                # property's domain has finite ones (costs, densities, distances of finite data)
                res.violations.append({"property": pid, "what": f"stream {key}: the code under test produced a non-finite cost / density / "
                                       f"distance on finite generated data ({os.path.basename(tb[-2].filename) if len(tb) > 1 else '?'}:"
                                       f"{tb[-2].lineno if len(tb) > 1 else '?'})",
                                       "replay": {"stream": key, "seed_key": res.seed_key,
                                                  "traceback": traceback.format_exception(type(ex), ex, ex.__traceback__)[-6:]}})
            elif "/opfython/" in inner or (through and isinstance(ex, (IndexError, KeyError, AttributeError, ValueError, TypeError,
                                                                       ZeroDivisionError))):
                res.violations.append({"property": pid, "what": f"stream {key}: the code under test raised {type(ex).__name__}: {ex} "
                                       f"at {os.path.basename(inner)}:{tb[-1].lineno} on a generated in-domain case",
                                       "replay": {"stream": key, "seed_key": res.seed_key,
                                                  "traceback": traceback.format_exception(type(ex), ex, ex.__traceback__)[-6:]}})
            else:
                raise
        res.wall = time.time() - t
        results.append(res)
    return results


def _evidence_dir():
    """evidence/ normally; trials against seeded changes redirect it (VERIF_EVIDENCE_DIR) so that the committed
    evidence always comes from runs on the unchanged tree."""
    return os.environ.get("VERIF_EVIDENCE_DIR") or os.path.join(VERIF, "evidence")


def _write_replay(pid, payload):
    d = os.path.join(_evidence_dir(), "replays")
    os.makedirs(d, exist_ok=True)
    h = hashlib.sha256(json.dumps(payload, sort_keys=True, default=str).encode()).hexdigest()[:12]
    path = os.path.join(d, f"{pid}-{h}.json")
    with open(path, "w") as f:
        json.dump(payload, f, indent=1, default=str)
    return os.path.relpath(path, VERIF) if path.startswith(VERIF) else path


def _known(pid, what, known):
    import re
    for k in known.get("findings", []):
        if k.get("property") == pid and re.search(k.get("match", "$^"), what):
            return k
    return None


def _relevant(cfg, disag):
    """keep the disagreements that bear on this property: cfg["relevant"] maps a line kind to the list of
    observation segments (positions between ' | ') the property's theorems speak about (None = all);
    line kinds not mentioned are irrelevant. Without cfg["relevant"] everything counts."""
    rel = cfg.get("relevant")
    if rel is None:
        return disag
    out = []
    for d in disag:
        m = d.get("meta") if isinstance(d.get("meta"), dict) else {}
        if cfg.get("min_classes") and m.get("classes") is not None and m["classes"] < cfg["min_classes"]:
            continue          # the property quantifies over training sets with >= 2 classes
        k = d.get("kind")
        if k not in rel:
            continue
        if rel[k] is None or any(sg in rel[k] for sg in d.get("segments", [])):
            out.append(d)
    return out


def decide(pid, cfg, tier, seed, lean, results, known, t0):
    os.makedirs(_evidence_dir(), exist_ok=True)
    viols = [v for r in results for v in r.violations if v["property"] == pid]
    disag = _relevant(cfg, [d for r in results for d in r.disagreements])
    lean_broken = (not lean["build_ok"]) or bool(lean["failed"])
    searched_rounds = 0
    if not viols and (disag or lean_broken):
        # failing-input search: more generated cases through the property's oracles on the real code
        rounds = 3 if tier == "quick" else 8
        for r in range(1, rounds + 1):
            more = run_streams(pid, cfg, tier, seed, extra_round=r)
            searched_rounds += 1
            results += more
            viols = [v for rr in more for v in rr.violations if v["property"] == pid]
            if viols:
                break
    rc = 0
    lines = []
    unlisted = []
    listed = {}
    for v in viols:
        k = _known(pid, v["what"], known)
        if k:
            listed[k["id"]] = k
        else:
            unlisted.append(v)
    for k in listed.values():
        lines.append(f"KNOWN-FINDING: property={pid} {k['what']}")
    if unlisted:
        v = unlisted[0]
        path = _write_replay(pid, {"property": pid, "what": v["what"], "case": v.get("replay"),
                                   "seed": seed, "tier": tier, "n_violations": len(unlisted),
                                   "replay_cmd": f"./check {pid} --replay <this file>"})
        lines.append(f"VIOLATION property={pid} replay={path}")
        rc = 1
    elif disag or lean_broken:
        payload = {"property": pid, "no_failing_input_found": True, "seed": seed, "tier": tier,
                   "theorems_not_checking": lean["failed"], "lean_notes": lean["notes"],
                   "correspondence_disagreements": [
                       {k: (str(v)[:2000]) for k, v in d.items() if k != "meta"} for d in disag[:5]],
                   "search_rounds": searched_rounds}
        path = _write_replay(pid, payload)
        lines.append(f"VIOLATION property={pid} replay={path} no-failing-input-found")
        rc = 1
    for ln in lines:
        print(ln)
    n_obl = len(lean["obligations"])
    n_dis = len(lean["discharged"])
    evaluations = sum(r.cases for r in results)
    dnt = sum(len(r.nontrivial) for r in results)
    samples = []
    for n in lean["discharged"][:40]:
        samples.append({"theorem": n, "axioms": lean["axioms"].get(n, [])})
    for r in results:
        samples += r.samples[:2]
    level = cfg.get("level", "proof" if (n_obl and n_dis) else "other")
    cov = {
        "obligations": n_obl, "discharged": n_dis,
        "checker_cmd": "cd lean && lake build OpfVerif " + " ".join(cfg.get("modules", [])) +
                       " && lake env lean <#print axioms of every theorem>",
        "trusted_base": TRUSTED,
        "evaluations": evaluations, "distinct_nontrivial": dnt,
        "rule": "cases generated from one PRNG (VERIF_SEED) per stream; distinct by sha256 of the canonical "
                "input line; non-trivial per stream rule (e.g. >=3 nodes and >=2 classes, >=3 heap ops)",
        "samples": samples,
        "theorems": {n: lean["axioms"].get(n, []) for n in lean["obligations"]},
        "not_proved": cfg.get("not_proved", []),
        "streams": [r.summary() for r in results],
        "lean_notes": lean["notes"],
        "leanchecker": lean.get("leanchecker", "not run (thorough tier only)"),
        "explanation": cfg.get("explanation", "theorems about the Lean model + differential correspondence model/implementation + property oracles on the implementation's outputs"),
        "driver_seconds": round(run_driver.seconds, 2),
    }
    ev = {"property_id": pid, "tier": tier, "seed": seed, "level": level, "coverage": cov,
          "assumptions": cfg.get("assumptions", []) + ["see DESIGN.md §6 (trusted base)"],
          "wall_s": round(time.time() - t0, 2), "violations": len(unlisted) + (1 if rc and not unlisted else 0)}
    with open(os.path.join(_evidence_dir(), f"{pid}.json"), "w") as f:
        json.dump(ev, f, indent=1, default=str)
    print(f"{pid}: tier={tier} seed={seed} theorems={n_dis}/{n_obl} cases={evaluations} "
          f"disagreements={len(disag)} violations={len(viols)} rc={rc} wall={ev['wall_s']}s")
    return rc


def replay(pid, path):
    payload = json.load(open(path))
    seed, tier = payload["seed"], payload["tier"]
    cfg = PROPS[pid]
    results = run_streams(pid, cfg, tier, seed)
    viols = [v for r in results for v in r.violations if v["property"] == pid]
    disag = [d for r in results for d in r.disagreements]
    for v in viols[:5]:
        print("violation:", v["what"])
    for d in disag[:3]:
        print("disagreement:", str(d)[:600])
    if viols or disag:
        print(f"VIOLATION property={pid} replay={path}")
        return 1
    print("replay: no violation reproduced")
    return 0
