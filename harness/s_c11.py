"""stream `c11`: invariance of supervised training / prediction to the order of the training samples
(tie-free data) and to the five mutually monotone Euclidean-family metrics, on the real code (oracle of C11).
The model-level statements are the equivariance theorems of Props/C11Map, C11Perm, C11Family."""
from common import *  # noqa
import struct
import warnings
warnings.filterwarnings("ignore")

FAMILY = ["euclidean", "squared_euclidean", "average_euclidean", "log_euclidean", "log_squared_euclidean"]


def fb(f):
    return struct.unpack("<Q", struct.pack("<d", float(f)))[0]


def order_type(vals):
    """ranks with ties: the only thing the order-driven algorithms consult."""
    s = sorted(set(vals))
    r = {v: i for i, v in enumerate(s)}
    return [r[v] for v in vals]


BOOST = int(os.environ.get("VERIF_BOOST", "1"))


def run(rng, tier, res=None):
    load_opfython()
    import opfython.math.distance as dist
    from opfython.models.supervised import SupervisedOPF
    res = res or Result("c11")
    ncases = (60 * BOOST) if tier == "quick" else 800

    def viol(msgs, meta):
        for m in (msgs if isinstance(msgs, list) else [msgs])[:3]:
            res.violations.append({"property": "C11", "what": m, "replay": meta})

    for case in range(ncases):
        n = rng.choice([4, 5, 6, 8, 10, 14]); d = rng.choice([1, 2, 3]); nq = rng.choice([2, 4, 6])
        K = rng.choice([2, 2, 3])
        if rng.random() < 0.35:
            # zero-centred integer features: mirrored coordinates (x_k == -y_k), zeros, exact ties
            X = np.array([[float(rng.randint(-2, 2)) for _ in range(d)] for _ in range(n)])
        else:
            X = np.array([[rng.gauss(0, 1) * rng.choice([1, 1, 10]) for _ in range(d)] for _ in range(n)])
        Y = np.array([i % K for i in range(n)], dtype=int); rng.shuffle(Y)
        Q = np.array([[rng.gauss(0, 1.5) for _ in range(d)] for _ in range(nq)])
        scale = rng.choice([1.0, 1.0, 1e-3, 1e3, 1e-2, 1e-11, 1e-12])     # the invariances do not depend on the unit of the features
        X = X * scale; Q = Q * scale
        narrow = None
        mode_ = rng.random()
        if mode_ < 0.15:
            # features with a large common offset (map coordinates, timestamps): still double precision, still tie-free
            off = rng.choice([1.7e7, 1.7e9, 3.0e6])
            X = off + np.array([[rng.gauss(0, 3) for _ in range(d)] for _ in range(n)])
            Q = off + np.array([[rng.gauss(0, 4) for _ in range(d)] for _ in range(nq)])
            res.hit("large_offset_features")
        elif mode_ < 0.3:
            # narrow integer features passed as they are (image patches, sensor counts)
            narrow = rng.choice([np.uint8, np.int8, np.int16, np.uint16])
            hi = {np.uint8: 255, np.int8: 127, np.int16: 30000, np.uint16: 60000}[narrow]
            lo = {np.uint8: 0, np.int8: -128, np.int16: -30000, np.uint16: 0}[narrow]
            X = np.array([[rng.randint(lo, hi) for _ in range(d)] for _ in range(n)], dtype=narrow)
            Q = np.array([[rng.randint(lo, hi) for _ in range(d)] for _ in range(nq)], dtype=narrow)
            res.hit("narrow_integer_features")
        if rng.random() < 0.3:
            Q[0] = X[rng.randrange(n)]
        meta = {"X": X.tolist(), "Y": Y.tolist(), "Q": Q.tolist()}
        # ---------- permutation ----------
        metric = rng.choice(["euclidean", "log_squared_euclidean", "manhattan", "squared_euclidean"])
        fn = dist.DISTANCES[metric]
        W = [float(fn(X[a], X[b])) for a in range(n) for b in range(a + 1, n)]
        DQ = [float(fn(X[t], Q[i])) for i in range(nq) for t in range(n)]
        tie_free = len(set(W)) == len(W) and len(set(W + [v for v in DQ if v != 0.0])) == len(W) + len([v for v in DQ if v != 0.0])
        if tie_free:
            sigma = list(range(n)); rng.shuffle(sigma)
            a = SupervisedOPF(distance=metric); a.fit(X.copy(), Y.copy()); pa = a.predict(Q.copy())
            b = SupervisedOPF(distance=metric); b.fit(X[sigma].copy(), Y[sigma].copy()); pb = b.predict(Q.copy())
            msgs = []
            for newpos, old in enumerate(sigma):
                na, nb = a.subgraph.nodes[old], b.subgraph.nodes[newpos]
                if na.status != nb.status:
                    msgs.append(f"sample {old} is {'a prototype' if na.status else 'no prototype'} in the original order but not after permuting")
                if fb(na.cost) != fb(nb.cost):
                    msgs.append(f"sample {old}: cost {na.cost} in the original order, {nb.cost} after permuting")
                if na.predicted_label != nb.predicted_label:
                    msgs.append(f"sample {old}: assigned label {na.predicted_label} vs {nb.predicted_label} after permuting")
            if list(pa) != list(pb):
                msgs.append(f"predictions {pa} change to {pb} when the training samples are permuted")
            # the same OBJECT re-fitted on the permuted data must agree with a fresh one
            a.fit(X[sigma].copy(), Y[sigma].copy()); pa2 = a.predict(Q.copy())
            st = lambda m_: [(nd.status, fb(nd.cost), nd.pred, nd.predicted_label) for nd in m_.subgraph.nodes]  # noqa
            if st(a) != st(b) or list(pa2) != list(pb):
                msgs.append("a classifier re-fitted on the permuted training set differs from a fresh classifier fitted on it "
                            "(result depends on the earlier training order)")
            # the same through a pre-computed matrix of the whole pool, training rows addressed by an index array:
            # fit(X, Y, I) and fit(X[sigma], Y[sigma], I[sigma]) are the same training SET
            if case % 2 == 0:
                try:
                    P = np.vstack([X, Q]); tot = len(P)
                    pool = list(range(tot)); rng.shuffle(pool)
                    Pp = P[pool]                                      # row r of the pool holds sample pool[r]
                    pos = {s_: r for r, s_ in enumerate(pool)}
                    M = np.array([[float(fn(Pp[u], Pp[v])) for v in range(tot)] for u in range(tot)])
                    It = np.array([pos[t] for t in range(n)]); Iq = np.array([pos[n + i] for i in range(nq)])
                    c_ = SupervisedOPF(distance=metric); c_.pre_computed_distance = True; c_.pre_distances = M
                    c_.fit(X.copy(), Y.copy(), It); pc = c_.predict(Q.copy(), Iq)
                    d_ = SupervisedOPF(distance=metric); d_.pre_computed_distance = True; d_.pre_distances = M
                    d_.fit(X[sigma].copy(), Y[sigma].copy(), It[sigma]); pd_ = d_.predict(Q.copy(), Iq)
                    for newpos, old in enumerate(sigma):
                        nc, nd_ = c_.subgraph.nodes[old], d_.subgraph.nodes[newpos]
                        if (nc.status, fb(nc.cost), nc.predicted_label) != (nd_.status, fb(nd_.cost), nd_.predicted_label):
                            msgs.append(f"pre-computed matrix + index array: sample {old} has (prototype, cost, label) "
                                        f"{(nc.status, nc.cost, nc.predicted_label)} in one order and {(nd_.status, nd_.cost, nd_.predicted_label)} in another")
                            break
                    if list(pc) != list(pd_) or list(pc) != list(pa):
                        msgs.append(f"pre-computed matrix + index array: predictions {pc} / {pd_} (permuted) / {pa} (features)")
                    res.hit("perm_precomputed_checked")
                except Exception as ex:
                    msgs.append(f"pre-computed permutation run raised {type(ex).__name__}: {ex}")
            viol(msgs, dict(meta, metric=metric, sigma=sigma))
            res.hit("perm_checked")
        else:
            res.hit("perm_skipped_ties")
        # ---------- the five-metric family ----------
        mats = {}
        try:
            for m in FAMILY:
                f = dist.DISTANCES[m]
                mats[m] = [float(f(X[a], X[b])) for a in range(n) for b in range(n) if a != b] + \
                          [float(f(X[t], Q[i])) for i in range(nq) for t in range(n)]
        except Exception as ex:
            viol([f"{m} raised {type(ex).__name__} where euclidean is defined: not a transform of the Euclidean distance"], meta)
            continue
        if narrow is not None:
            Xf, Qf = X.astype(np.float64), Q.astype(np.float64)
            for m in FAMILY:
                f = dist.DISTANCES[m]
                ref = [float(f(Xf[a], Xf[b])) for a in range(n) for b in range(n) if a != b] + \
                      [float(f(Xf[t], Qf[i])) for i in range(nq) for t in range(n)]
                bad_ = [(u, v) for u, v in zip(mats[m], ref) if not (abs(u - v) <= 1e-9 * max(1.0, abs(v)))]
                if bad_:
                    viol([f"{m} on {np.dtype(narrow).name} features gives {bad_[0][0]!r} where the same values as float64 give {bad_[0][1]!r}: "
                          f"not a monotone transform of the Euclidean distance of the samples"], meta)
                    break
        ot = {m: order_type(v) for m, v in mats.items()}
        # a strictly increasing transform may MERGE values in binary64 (weak monotonicity) but can never INVERT two
        inverted = []
        E = mats["euclidean"]
        for m in FAMILY[1:]:
            V = mats[m]
            idx_sorted = sorted(range(len(E)), key=lambda t: E[t])
            for a_, b_ in zip(idx_sorted, idx_sorted[1:]):
                if E[a_] < E[b_] and V[a_] > V[b_]:
                    inverted.append((m, E[a_], E[b_], V[a_], V[b_]))
                    break
            if not inverted:
                # non-adjacent inversions
                mx = float("-inf")
                for t in idx_sorted:
                    if V[t] < mx and any(E[u] < E[t] and V[u] > V[t] for u in idx_sorted):
                        inverted.append((m, "non-adjacent"))
                        break
                    mx = max(mx, V[t])
        if inverted:
            viol([f"{inverted[0][0]} is not a monotone transform of euclidean on this data: {inverted[0][1:]}"], meta)
        fam_ok = [m for m in FAMILY if ot[m] == ot["euclidean"]]     # members whose rounding merged no two values on this data
        if inverted:
            pass
        elif len(fam_ok) < 2:
            res.hit("family_skipped_rounding_merges_values")
        else:
            if len(fam_ok) < len(FAMILY):
                res.hit("family_checked_on_members_without_merges")
            outs = {}
            for m in fam_ok:
                o = SupervisedOPF(distance=m); o.fit(X.copy(), Y.copy())
                outs[m] = ([nd.status for nd in o.subgraph.nodes], [nd.pred for nd in o.subgraph.nodes],
                           [nd.predicted_label for nd in o.subgraph.nodes], list(o.subgraph.idx_nodes), list(o.predict(Q.copy())))
            msgs = []
            for m in fam_ok[1:]:
                if outs[m] != outs["euclidean"]:
                    names = ["prototypes", "predecessors", "assigned labels", "conquest order", "predictions"]
                    msgs.append(f"{m} vs euclidean: {[nm for nm, u, v in zip(names, outs[m], outs['euclidean']) if u != v]} differ")
            viol(msgs, meta)
            res.hit("family_checked")
        # ---------- the family through the library's own pre-computed workflow, and through its own monotone rescaling ----------
        if case % 3 == 1:
            try:
                import tempfile, shutil
                import opfython.math.general as G_
                tmpd = tempfile.mkdtemp(prefix="opfverif-c11-")
                Pool = np.vstack([X, Q])
                It_, Iq_ = np.arange(n), np.arange(n, n + nq)
                outs_p = {}
                mats_p = {}
                for m in FAMILY:
                    pth = os.path.join(tmpd, f"{m}.txt")
                    G_.pre_compute_distance(Pool, pth, m)
                    mats_p[m] = np.loadtxt(pth, ndmin=2)
                    o_ = SupervisedOPF(distance=m, pre_computed_distance=pth); o_.fit(X.copy(), Y.copy(), It_)
                    outs_p[m] = ([nd.status for nd in o_.subgraph.nodes], [nd.predicted_label for nd in o_.subgraph.nodes],
                                 list(o_.subgraph.idx_nodes), list(o_.predict(Q.copy(), Iq_)))
                shutil.rmtree(tmpd, ignore_errors=True)
                off = ~np.eye(len(Pool), dtype=bool)
                same_order = all(order_type(list(mats_p[m][off])) == order_type(list(mats_p["euclidean"][off])) for m in FAMILY)
                # the files must hold the metrics (monotone transforms of one another up to rounding merges), whatever the dtype of the data
                for m in FAMILY[1:]:
                    E_, V_ = mats_p["euclidean"][off], mats_p[m][off]
                    srt = np.argsort(E_, kind="stable")
                    if any(E_[a_] < E_[b_] and V_[a_] > V_[b_] for a_, b_ in zip(srt, srt[1:])):
                        viol([f"pre-computed {m} file is not a monotone transform of the pre-computed euclidean file ({X.dtype} data)"], meta)
                        break
                sq, eu = mats_p["squared_euclidean"][off], mats_p["euclidean"][off]
                if np.any(np.abs(eu * eu - sq) > 1e-6 * np.maximum(1.0, np.abs(sq))):
                    viol([f"pre-computed euclidean file is not the square root of the pre-computed squared_euclidean file ({X.dtype} data): "
                          f"the five identifiers are no longer transforms of one distance"], meta)
                if same_order and any(outs_p[m] != outs_p["euclidean"] for m in FAMILY):
                    viol([f"pre-computed files of the five metrics give different prototypes / labels / order / predictions"], meta)
                res.hit("family_precomputed_checked")
                # min-max rescaling requested from a fitted model is a strictly increasing transform too
                a_ = SupervisedOPF(distance="euclidean"); a_.fit(X.copy(), Y.copy())
                Dn = np.array(a_.get_distances(normalize=True)); Dr = np.array(a_.get_distances())
                offn = ~np.eye(n, dtype=bool)
                if order_type([round(v, 12) for v in Dn[offn]]) != order_type([round(v, 12) for v in ((Dr - Dr.min()) / (Dr.max() - Dr.min()))[offn]]):
                    viol(["get_distances(normalize=True) is not an increasing transform of the metric on the training pairs"], meta)
                else:
                    b_ = SupervisedOPF(distance="euclidean"); b_.pre_computed_distance = True; b_.pre_distances = Dn
                    b_.fit(X.copy(), Y.copy(), np.arange(n))
                    if [nd.status for nd in b_.subgraph.nodes] != [nd.status for nd in a_.subgraph.nodes] or \
                            [nd.predicted_label for nd in b_.subgraph.nodes] != [nd.predicted_label for nd in a_.subgraph.nodes]:
                        if len(set(Dr[offn].tolist())) == n * (n - 1) // 2 * 1 or True:
                            tiefree_ = len(set(np.round(Dr[np.triu_indices(n, 1)], 12).tolist())) == n * (n - 1) // 2
                            if tiefree_:
                                viol(["training through the model's own normalised distance matrix gives other prototypes / labels than the metric itself"], meta)
                res.hit("normalised_matrix_checked")
            except Exception as ex:
                viol([f"pre-computed family scenario raised {type(ex).__name__}: {ex}"], meta)
        res.add_case(f"c11 {case} {n} {d} {metric}", nontrivial=True)
        if case < 2:
            res.samples.append({"n": n, "d": d, "metric": metric, "tie_free": tie_free})
    return res
