"""stream `precomp`: training/predicting through a distance file written by the library's own
`pre_compute_distance` (.txt and .csv, index arrays from `split_with_index`) vs computing the same metric
on the fly, for the supervised, semi-supervised and unsupervised models; `get_distances` (C10)."""
from common import *  # noqa
import shutil
import tempfile
import struct
import warnings
warnings.filterwarnings("ignore")


def fb(f):
    return struct.unpack("<Q", struct.pack("<d", float(f)))[0]


def state(o, unsup=False):
    nd = o.subgraph.nodes
    return ([nd_.status for nd_ in nd], [fb(nd_.cost) for nd_ in nd], [nd_.pred for nd_ in nd],
            [nd_.predicted_label for nd_ in nd], [nd_.cluster_label for nd_ in nd], [nd_.root for nd_ in nd],
            list(o.subgraph.idx_nodes))


BOOST = int(os.environ.get("VERIF_BOOST", "1"))


def run(rng, tier, res=None):
    load_opfython()
    import opfython.math.distance as dist
    import opfython.math.general as G
    from opfython.stream import splitter
    from opfython.models.supervised import SupervisedOPF
    from opfython.models.semi_supervised import SemiSupervisedOPF
    from opfython.models.unsupervised import UnsupervisedOPF
    res = res or Result("precomp")
    names = sorted(dist.DISTANCES)
    ncases = (30 * BOOST) if tier == "quick" else 3 * len(names)
    tmp = tempfile.mkdtemp(prefix="opfverif-precomp-")

    def viol(msgs, meta):
        for m in (msgs if isinstance(msgs, list) else [msgs])[:3]:
            res.violations.append({"property": "C10", "what": m, "replay": meta})

    for case in range(ncases):
        metric = rng.choice(names) if tier == "quick" else names[case % len(names)]
        if case % 5 == 0:
            metric = rng.choice(["pearson", "neyman", "kullback_leibler", "k_divergence", "statistic"])   # asymmetric: orientation matters
        if case % 10 == 1:
            metric = "gaussian"            # self-distance 1
        if case % 10 == 2:
            metric = "bhattacharyya"       # self-distance != 0 off the simplex
        fn = dist.DISTANCES[metric]
        N = rng.choice([8, 10, 12]); d = rng.choice([2, 3])
        if rng.random() < 0.4:
            # small integer lattice: many exactly tied distances (tie-breaking must be the same on both paths)
            D = np.array([[float(rng.randint(1, 3)) for _ in range(d)] for _ in range(N)])
        else:
            D = np.array([[rng.uniform(0.1, 1.0) for _ in range(d)] for _ in range(N)])
            D = D / D.sum(axis=1, keepdims=True)
        Y = np.array([i % 2 for i in range(N)], dtype=int); rng.shuffle(Y)
        ext = rng.choice(["txt", "csv"])
        path = os.path.join(tmp, f"d{case}.{ext}")
        kind = ["sup", "semi", "unsup"][case % 3]
        meta = {"metric": metric, "ext": ext, "kind": kind, "D": D.tolist(), "Y": Y.tolist()}
        try:
            Db = D.tobytes()
            G.pre_compute_distance(D, path, metric)
            if D.tobytes() != Db:
                res.violations.append({"property": "C07", "what": f"pre_compute_distance({metric}) modified the data", "replay": meta})
            pct = rng.choice([0.5, 0.6, 0.7]); seed = rng.randint(0, 999)
            X1, X2, Y1, Y2, I1, I2 = splitter.split_with_index(D, Y, pct, seed)
            if len(set(Y1.tolist())) < 2:
                res.hit("skipped_single_class"); continue
            if kind == "sup":
                a = SupervisedOPF(distance=metric); a.fit(X1.copy(), Y1.copy()); pa = a.predict(X2.copy())
                b = SupervisedOPF(distance=metric, pre_computed_distance=path); b.fit(X1.copy(), Y1.copy(), I1); pb = b.predict(X2.copy(), I2)
            elif kind == "semi":
                nl = max(4, N // 2); nu = 2
                Yl = Y[:nl].copy()
                if len(set(Yl.tolist())) < 2:
                    Yl[0], Yl[1] = 0, 1
                a = SemiSupervisedOPF(distance=metric); a.fit(D[:nl].copy(), Yl.copy(), D[nl:nl + nu].copy()); pa = a.predict(D[nl + nu:].copy())
                b = SemiSupervisedOPF(distance=metric, pre_computed_distance=path)
                b.fit(D[:nl].copy(), Yl.copy(), D[nl:nl + nu].copy(), np.arange(nl)); pb = b.predict(D[nl + nu:].copy(), np.arange(nl + nu, N))
            else:
                mk = min(3, len(X1) - 1)
                a = UnsupervisedOPF(min_k=1, max_k=mk, distance=metric); a.fit(X1.copy(), Y1.copy()); pa = a.predict(X2.copy())
                b = UnsupervisedOPF(min_k=1, max_k=mk, distance=metric, pre_computed_distance=path)
                b.fit(X1.copy(), Y1.copy(), I1); pb = b.predict(X2.copy(), I2)
            msgs = []
            sa, sb = state(a), state(b)
            if sa != sb:
                fields = ["prototypes", "costs", "predecessors", "labels", "clusters", "roots", "order"]
                msgs.append(f"{kind}/{metric}/.{ext}: pre-computed vs on-the-fly training differ in "
                            f"{[f for f, u, v in zip(fields, sa, sb) if u != v]}")
            if repr(pa) != repr(pb):
                msgs.append(f"{kind}/{metric}/.{ext}: predictions differ: {pa} vs {pb}")
            # get_distances on the fitted (on-the-fly) model
            Gm = a.get_distances()
            nd = a.subgraph.nodes
            for i in range(len(nd)):
                for j in range(len(nd)):
                    if fb(Gm[i][j]) != fb(fn(nd[i].features.copy(), nd[j].features.copy())):
                        msgs.append(f"get_distances[{i}][{j}] != {metric}(sample {i}, sample {j})"); break
                else:
                    continue
                break
            Gn = a.get_distances(normalize=True)
            if Gm.max() > Gm.min():
                W = (Gm - Gm.min()) / (Gm.max() - Gm.min())
                if np.abs(Gn - W).max() > 1e-12 or Gn.min() < -1e-12 or Gn.max() > 1 + 1e-12:
                    msgs.append("normalised get_distances is not the min-max rescaling to [0, 1]")
            viol(msgs, meta)
        except Exception as ex:
            viol(f"{kind}/{metric}/.{ext}: {type(ex).__name__}: {ex}", meta)
            continue
        res.add_case(f"precomp {kind} {metric} {ext} {case}", nontrivial=True)
        res.hit("precomp_" + kind); res.hit("precomp_" + ext)
        if case < 2:
            res.samples.append({"kind": kind, "metric": metric, "ext": ext, "predictions": repr(pa)[:100]})
    shutil.rmtree(tmp, ignore_errors=True)
    return res
