"""stream `precomp`: training/predicting through a distance file written by the library's own
`pre_compute_distance` (.txt and .csv, index arrays from `split_with_index`) vs computing the same metric
on the fly, for the supervised, semi-supervised and unsupervised models; `get_distances` (C10)."""
from common import *  # noqa
import shutil
import tempfile
import struct
import warnings
warnings.filterwarnings("ignore")


def fb(f):
    return struct.unpack("<Q", struct.pack("<d", float(f)))[0]


def state(o, unsup=False):
    nd = o.subgraph.nodes
    return ([nd_.status for nd_ in nd], [fb(nd_.cost) for nd_ in nd], [nd_.pred for nd_ in nd],
            [nd_.predicted_label for nd_ in nd], [nd_.cluster_label for nd_ in nd], [nd_.root for nd_ in nd],
            list(o.subgraph.idx_nodes))


BOOST = int(os.environ.get("VERIF_BOOST", "1"))


def run(rng, tier, res=None):
    load_opfython()
    import opfython.math.distance as dist
    import opfython.math.general as G
    from opfython.stream import splitter
    from opfython.models.supervised import SupervisedOPF
    from opfython.models.semi_supervised import SemiSupervisedOPF
    from opfython.models.unsupervised import UnsupervisedOPF
    res = res or Result("precomp")
    names = sorted(dist.DISTANCES)
    ncases = (30 * BOOST) if tier == "quick" else 3 * len(names)
    tmp = tempfile.mkdtemp(prefix="opfverif-precomp-")

    def viol(msgs, meta):
        for m in (msgs if isinstance(msgs, list) else [msgs])[:3]:
            res.violations.append({"property": "C10", "what": m, "replay": meta})

    for case in range(ncases):
        metric = rng.choice(names) if tier == "quick" else names[case % len(names)]
        if case % 5 == 0:
            metric = rng.choice(["pearson", "neyman", "kullback_leibler", "k_divergence", "statistic"])   # asymmetric: orientation matters
        if case % 10 == 1:
            metric = "gaussian"            # self-distance 1
        if case % 10 == 2:
            metric = "bhattacharyya"       # self-distance != 0 off the simplex
        fn = dist.DISTANCES[metric]
        N = rng.choice([8, 10, 12]); d = rng.choice([2, 3])
        if rng.random() < 0.4:
            # small integer lattice: many exactly tied distances (tie-breaking must be the same on both paths)
            D = np.array([[float(rng.randint(1, 3)) for _ in range(d)] for _ in range(N)])
        else:
            D = np.array([[rng.uniform(0.1, 1.0) for _ in range(d)] for _ in range(N)])
            D = D / D.sum(axis=1, keepdims=True)
        if case % 6 == 4:
            # sparse count data: exact zeros shared by several samples, with a zero-guarded ratio metric — the value of an
            # arc must not depend on how many evaluations its end points have been through
            metric = rng.choice(["canberra", "clark", "divergence", "bray_curtis", "chi_squared", "soergel", "additive_symmetric",
                                 "vicis_wave_hedges", "squared", "jaccard"])
            fn = dist.DISTANCES[metric]
            d = rng.choice([3, 4, 5])
            D = np.array([[float(rng.choice([0, 0, 0, 1, 2, 5])) for _ in range(d)] for _ in range(N)])
            for r in range(N):
                if D[r].sum() == 0:
                    D[r][rng.randrange(d)] = 1.0
            res.hit("sparse_zero_data")
        if case % 4 == 3:
            D = D.astype(np.float32)
        elif case % 7 == 5 and np.all(D == np.round(D)):
            D = D.astype(np.int64)         # integer-typed features (counts, pixel intensities): the file still holds the real-valued metric
            res.hit("integer_typed_dataset")       # single-precision datasets: both routes must evaluate the metric on the SAME values
        Y = np.array([i % 2 for i in range(N)], dtype=int); rng.shuffle(Y)
        ext = rng.choice(["txt", "csv"])
        # a few path names are re-used, so files are overwritten with other datasets (often of the same shape):
        # what a model reads must be what the file holds NOW
        path = os.path.join(tmp, f"d{case % 4}.{ext}")
        reused = os.path.exists(path)
        kind = ["sup", "semi", "unsup"][case % 3]
        meta = {"metric": metric, "ext": ext, "kind": kind, "D": D.tolist(), "Y": Y.tolist()}
        try:
            Db = D.tobytes()
            G.pre_compute_distance(D, path, metric)
            if D.tobytes() != Db:
                res.violations.append({"property": "C07", "what": f"pre_compute_distance({metric}) modified the data", "replay": meta})
                D = np.frombuffer(Db, dtype=D.dtype).reshape(D.shape).copy()
            # the file holds the metric on every ORDERED pair of rows (18 significant digits: exact round trip)
            Mf = np.loadtxt(path, delimiter="," if ext == "csv" else None, ndmin=2)
            bad_entry = None
            for i_ in range(N):
                for j_ in range(N):
                    want_ = float(fn(D[i_].copy(), D[j_].copy()))
                    if fb(Mf[i_][j_]) != fb(want_) and not (Mf[i_][j_] != Mf[i_][j_] and want_ != want_):
                        bad_entry = (i_, j_, float(Mf[i_][j_]), want_); break
                if bad_entry:
                    break
            if bad_entry:
                for pp in ("C10", "C06"):
                    res.violations.append({"property": pp, "what": f"pre_compute_distance({metric}): file entry [{bad_entry[0]}][{bad_entry[1]}] = "
                                           f"{bad_entry[2]!r}, the metric on (row {bad_entry[0]}, row {bad_entry[1]}) is {bad_entry[3]!r}", "replay": meta})
            res.hit("file_entries_checked")
            pct = rng.choice([0.5, 0.6, 0.7]); seed = rng.randint(0, 999)
            X1, X2, Y1, Y2, I1, I2 = splitter.split_with_index(D, Y, pct, seed)
            if len(set(Y1.tolist())) < 2:
                res.hit("skipped_single_class"); continue
            bm = metric
            if case % 3 != 0:
                bm = rng.choice(["log_squared_euclidean", "euclidean", "manhattan", metric])    # the file decides, not this option
                res.hit("file_backed_model_with_other_metric_option" if bm != metric else "file_backed_model_same_option")
            if kind == "sup":
                a = SupervisedOPF(distance=metric); a.fit(X1.copy(), Y1.copy()); pa = a.predict(X2.copy())
                b = SupervisedOPF(distance=bm, pre_computed_distance=path); b.fit(X1.copy(), Y1.copy(), I1); pb = b.predict(X2.copy(), I2)
            elif kind == "semi":
                nl = max(4, N // 2); nu = 2
                Yl = Y[:nl].copy()
                if len(set(Yl.tolist())) < 2:
                    Yl[0], Yl[1] = 0, 1
                a = SemiSupervisedOPF(distance=metric); a.fit(D[:nl].copy(), Yl.copy(), D[nl:nl + nu].copy()); pa = a.predict(D[nl + nu:].copy())
                b = SemiSupervisedOPF(distance=bm, pre_computed_distance=path)
                b.fit(D[:nl].copy(), Yl.copy(), D[nl:nl + nu].copy(), np.arange(nl)); pb = b.predict(D[nl + nu:].copy(), np.arange(nl + nu, N))
            else:
                mk = min(3, len(X1) - 1)
                a = UnsupervisedOPF(min_k=1, max_k=mk, distance=metric); a.fit(X1.copy(), Y1.copy()); pa = a.predict(X2.copy())
                b = UnsupervisedOPF(min_k=1, max_k=mk, distance=bm, pre_computed_distance=path)
                b.fit(X1.copy(), Y1.copy(), I1); pb = b.predict(X2.copy(), I2)
            msgs = []
            sa, sb = state(a), state(b)
            if sa != sb:
                fields = ["prototypes", "costs", "predecessors", "labels", "clusters", "roots", "order"]
                msgs.append(f"{kind}/{metric}/.{ext}/{D.dtype}: pre-computed vs on-the-fly training differ in "
                            f"{[f for f, u, v in zip(fields, sa, sb) if u != v]}")
            if repr(pa) != repr(pb):
                msgs.append(f"{kind}/{metric}/.{ext}/{D.dtype}: predictions differ: {pa} vs {pb}")
            if reused and msgs:
                # the same matrix through a path never used before: if that agrees, the disagreement is a stale read
                fresh = os.path.join(tmp, f"fresh{case}.{ext}")
                shutil.copyfile(path, fresh)
                try:
                    if kind == "sup":
                        c_ = SupervisedOPF(distance=metric, pre_computed_distance=fresh); c_.fit(X1.copy(), Y1.copy(), I1)
                    elif kind == "semi":
                        c_ = SemiSupervisedOPF(distance=metric, pre_computed_distance=fresh)
                        c_.fit(D[:nl].copy(), Yl.copy(), D[nl:nl + nu].copy(), np.arange(nl))
                    else:
                        c_ = UnsupervisedOPF(min_k=1, max_k=mk, distance=metric, pre_computed_distance=fresh); c_.fit(X1.copy(), Y1.copy(), I1)
                    if state(c_) == sa:
                        res.violations.append({"property": "C07", "what": f"a fresh {kind} model reading a re-written distance file differs from one "
                                               f"reading the identical matrix from an unused path (result depends on the process history)", "replay": meta})
                except Exception:
                    pass
            res.hit("path_reused" if reused else "path_new")
            res.hit("dtype_" + str(D.dtype))
            # get_distances on the fitted (on-the-fly) model
            Gm = a.get_distances()
            nd = a.subgraph.nodes
            for i in range(len(nd)):
                for j in range(len(nd)):
                    if fb(Gm[i][j]) != fb(fn(nd[i].features.copy(), nd[j].features.copy())):
                        msgs.append(f"get_distances[{i}][{j}] != {metric}(sample {i}, sample {j})"); break
                else:
                    continue
                break
            Gm0 = np.array(Gm, copy=True)
            Gn = a.get_distances(normalize=True)
            if Gm.max() > Gm.min():
                W = (Gm0 - Gm0.min()) / (Gm0.max() - Gm0.min())
                if np.abs(Gn - W).max() > 1e-12 or Gn.min() < -1e-12 or Gn.max() > 1 + 1e-12:
                    msgs.append("normalised get_distances is not the min-max rescaling to [0, 1]")
            # any sequence of requests on one fitted model: a raw request after a normalised one is still the metric,
            # and a matrix handed out earlier is not changed by later requests
            Gn0 = np.array(Gn, copy=True)
            Gm2 = a.get_distances()
            if np.array(Gm2).tobytes() != Gm0.tobytes():
                msgs.append("get_distances() after get_distances(normalize=True) differs from the first raw matrix")
            if np.array(Gm).tobytes() != Gm0.tobytes():
                msgs.append("the matrix returned by the first get_distances() was changed by a later request")
            Gn2 = a.get_distances(normalize=True)
            if np.array(Gn2).tobytes() != Gn0.tobytes() or np.array(Gn).tobytes() != Gn0.tobytes():
                msgs.append("get_distances(normalize=True) is not repeatable on one fitted model")
            # the file-backed model reports the file's entries for its own training samples
            Gb = b.get_distances()
            if kind != "semi" and bm == metric and np.array(Gb).tobytes() != Gm0.tobytes():
                msgs.append(f"get_distances() of the file-backed {kind} model differs from the metric on its training pairs")
            res.hit("get_distances_sequence")
            # a file-backed object switched back to its metric is an on-the-fly model again (index arrays no longer needed)
            if kind in ("sup", "semi") and bm == metric:
                try:
                    b.pre_computed_distance = False
                    if kind == "sup":
                        b.fit(X1.copy(), Y1.copy()); pb2 = b.predict(X2.copy())
                    else:
                        b.fit(D[:nl].copy(), Yl.copy(), D[nl:nl + nu].copy()); pb2 = b.predict(D[nl + nu:].copy())
                    if state(b) != sa or repr(pb2) != repr(pa):
                        msgs.append(f"{kind}/{metric}: a file-backed model switched back with pre_computed_distance = False and re-fitted on the "
                                    f"features differs from on-the-fly training")
                    res.hit("switched_back_to_metric")
                except Exception as ex:
                    msgs.append(f"{kind}/{metric}: re-fit after pre_computed_distance = False raised {type(ex).__name__}")
            # a matrix handed over through the setter stays the caller's: no request may rewrite it
            if kind == "sup":
                try:
                    nn_ = len(X1)
                    Ms = np.array([[float(fn(X1[u].copy(), X1[v].copy())) for v in range(nn_)] for u in range(nn_)])
                    ms_b = Ms.tobytes()
                    c2 = SupervisedOPF(distance=metric); c2.pre_computed_distance = True; c2.pre_distances = Ms
                    c2.fit(X1.copy(), Y1.copy())
                    g1 = np.array(c2.get_distances(), copy=True); c2.get_distances(normalize=True); g2 = np.array(c2.get_distances(), copy=True)
                    if Ms.tobytes() != ms_b:
                        res.violations.append({"property": "C07", "what": "get_distances(normalize=True) rewrote the matrix the caller assigned through "
                                               "the pre_distances setter", "replay": meta})
                    if g1.tobytes() != g2.tobytes() or g1.tobytes() != ms_b:
                        msgs.append("get_distances() of a model holding a setter-assigned matrix differs from that matrix / changes after a normalised request")
                    res.hit("setter_assigned_matrix")
                except Exception as ex:
                    msgs.append(f"setter-assigned matrix scenario raised {type(ex).__name__}: {ex}")
            viol(msgs, meta)
            own = {"sup": "C01", "semi": "C15", "unsup": "C13"}[kind]
            for m_ in [m for m in msgs if "pre-computed vs on-the-fly" in m][:1]:
                # costs/labels under the SUPPLIED matrix are not those of the metric it was computed from
                res.violations.append({"property": own, "what": m_, "replay": meta})
        except Exception as ex:
            viol(f"{kind}/{metric}/.{ext}: {type(ex).__name__}: {ex}", meta)
            continue
        res.add_case(f"precomp {kind} {metric} {ext} {case}", nontrivial=True)
        res.hit("precomp_" + kind); res.hit("precomp_" + ext)
        if case < 2:
            res.samples.append({"kind": kind, "metric": metric, "ext": ext, "predictions": repr(pa)[:100]})
    shutil.rmtree(tmp, ignore_errors=True)
    return res
